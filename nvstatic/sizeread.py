"""Decision-table rule for the size accessors ``_NumbersModel.row_height`` / ``col_width`` (C16.R2).

The accessor is summarised (funsum: paths over the parameters, stores recorded as effects, temporaries substituted away)
and evaluated in the scenarios that matter:

* a value is given               -> it is stored under exactly (table, index) and returned;
* no value, memo holds the index -> the memo entry is returned, nothing is stored;
* no value, memo miss            -> the size is ``round(<header with that index>.size)`` when such a header exists with a
  non-zero size, else ``round(<table default>)``; the headers are those of the table's own row (column) header bucket,
  keyed by the header's ``index`` field; the result is memoised under (table, index).
"""

from __future__ import annotations

import ast
import copy

from .core import AnalysisError, U, call_name
from .funsum import Asg, Summarizer, _Simp, decide
from .symexec import _strip


def _n(src):
    return U(ast.parse(src, mode="eval").body)


def check(repo, reader):
    f = repo.func("model.py", f"_NumbersModel.{reader}")
    params = [a.arg for a in f.args.args]
    if len(params) < 4:
        raise AnalysisError(f"{reader}: expected (self, table_id, index, value)")
    tid, idx, val = params[1:4]
    row = reader == "row_height"
    sizes = "_row_heights" if row else "_col_widths"
    head = _n(f"self.objects[self.objects[{tid}].base_data_store.rowHeaders.buckets[0].identifier].headers" if row
              else f"self.objects[self.objects[{tid}].base_data_store.columnHeaders.identifier].headers")
    M = _n(f"{{_v0.index: _v0 for _v0 in {head}}}")
    default = _n(f"self.objects[{tid}].default_row_height" if row else f"self.objects[{tid}].default_column_width")
    memo = _n(f"self.{sizes}[{tid}][{idx}]")
    memo_tab = _n(f"self.{sizes}[{tid}]")
    # the memo maps a table id to a dict of sizes: when every store into it (anywhere in the model) puts a dict there, an entry
    # is never None and ``memo.get(t)`` / ``memo.get(t) is None`` read as ``memo[t]`` / ``t not in memo``
    from . import funsum as _fs
    never_none = True
    for n_ in ast.walk(repo.tree("model.py")):
        tg_ = n_.targets if isinstance(n_, ast.Assign) else ([n_.target] if isinstance(n_, (ast.AugAssign, ast.AnnAssign)) else [])
        for t_ in tg_:
            if isinstance(t_, ast.Subscript) and U(t_.value) == f"self.{sizes}" and not (isinstance(n_, ast.Assign) and (
                    isinstance(n_.value, (ast.Dict, ast.DictComp)) or (isinstance(n_.value, ast.Call) and call_name(n_.value) in ("dict", "defaultdict")))):
                never_none = False
    saved_tables = set(_fs.TABLE_TEXTS)
    if never_none:
        _fs.TABLE_TEXTS.add(f"self.{sizes}")
    try:
        paths = Summarizer().summarize(f)
    finally:
        _fs.TABLE_TEXTS.clear()
        _fs.TABLE_TEXTS.update(saved_tables)
    probs = {"set": [], "get-memo": [], "lookup": [], "fields": [], "allowance": set()}
    n = 0

    def stores_ok(p, value_text, simp=lambda e: e):
        """Exactly one store to the memo entry (with the given value); creating the table's map is the only other store."""
        hit = [e for e in p.effects if e[0] == memo]
        other = [e for e in p.effects if e[0] != memo and not (e[0] == memo_tab and U(e[1]) == "{}")]
        if other:
            return f"also stores `{other[0][0]} = {U(other[0][1])[:50]}`"
        if len(hit) != 1:
            return f"{len(hit)} stores to `{memo}`"
        if value_text is not None and U(simp(copy.deepcopy(_strip(hit[0][1])))) != value_text:
            return f"stores `{U(hit[0][1])[:60]}` under `{memo}`"
        return None

    # (1) a value is given
    for fx, kind, got, p in decide(paths, {f"{val} is None": False}):
        n += 1
        bad = None
        if kind != "return" or got != val:
            bad = f"returns `{got}`"
        bad = bad or stores_ok(p, val)
        if bad:
            probs["set"].append((p.node, f"with a value given" + (f" and {fx}" if fx else "") + f": {bad}; the value must be stored for exactly (table, {idx}) and returned"))
    # (2) memo hit
    for fx, kind, got, p in decide(paths, {f"{val} is None": True, f"{tid} in self.{sizes}": True, f"{idx} in self.{sizes}[{tid}]": True}):
        n += 1
        if kind != "return" or got != memo or p.effects:
            probs["get-memo"].append((p.node, f"with the size already set or memoised" + (f" and {fx}" if fx else "") + f": returns `{got}`" +
                                      (f" and stores {p.effects[0][0]}" if p.effects else "") + f" instead of `{memo}` as is"))
    # (3) memo miss
    for miss in ({f"{tid} in self.{sizes}": False, f"{idx} in self.{sizes}[{tid}]": False}, {f"{tid} in self.{sizes}": True, f"{idx} in self.{sizes}[{tid}]": False}):
        for present, nonzero in ((True, True), (True, False), (False, False)):
            sc = {f"{val} is None": True, **miss, _n(f"{idx} in {M}"): present, _n(f"{M}[{idx}].size == 0.0"): not nonzero}
            for fx, kind, got, p in decide(paths, sc):
                n += 1
                r = _Simp(Asg(sc, fx)).visit(copy.deepcopy(_strip(p.ret)))
                rounds = [U(c.args[0]) for c in ast.walk(r) if isinstance(c, ast.Call) and call_name(c) == "round" and len(c.args) == 1]
                # what the reported size adds on top of the rounded stored size (the border allowance)
                core = r
                while isinstance(core, ast.Call) and call_name(core) in ("floor", "int", "round", "ceil") and len(core.args) == 1 and not (
                        call_name(core) == "round" and U(core.args[0]) in rounds and not isinstance(core.args[0], ast.BinOp)):
                    core = core.args[0]
                terms = []

                def _flat(e):
                    if isinstance(e, ast.BinOp) and isinstance(e.op, ast.Add):
                        _flat(e.left)
                        _flat(e.right)
                    else:
                        terms.append(e)
                _flat(core)
                probs["allowance"] |= {U(t)[:80] for t in terms if not (isinstance(t, ast.Call) and call_name(t) == "round") and not (isinstance(t, ast.Constant) and t.value in (0, 0.0))}
                want = _n(f"{M}[{idx}].size") if (present and nonzero) else default
                cat = "lookup" if (present and nonzero) else "fields"
                where = (f"header with index {idx} present={present}, size non-zero={nonzero}" + (f", {fx}" if fx else ""))
                if kind != "return" or rounds != [want]:
                    probs[cat].append((p.node, f"{where}: the size is taken from `{rounds[0][:110] if rounds else got[:110]}` instead of `{want[:110]}`"))
                    continue
                bad = stores_ok(p, U(r), lambda e: _Simp(Asg(sc, fx)).visit(e))
                if bad:
                    probs["get-memo"].append((p.node, f"{where}: {bad}; the computed size must be memoised under (table, {idx}) only"))
    # (4) the stored strokes are applied before a given size is stored: applying them later (they are applied lazily, on
    # the first border access, also during save) drops the entries of the rows/columns they touch from this same memo
    from .symexec import body_paths, none_test
    late = []
    for conds, steps, _end in body_paths([b for b in f.body if not (isinstance(b, ast.Expr) and isinstance(b.value, ast.Constant))]):
        # the first test on the parameter decides (later ones may test a local that reuses its name)
        firstc = next(((t, o) for t, o in conds if none_test(t, val) is not None), None)
        given = firstc is not None and ((none_test(firstc[0], val) is True and firstc[1] is False) or (none_test(firstc[0], val) is False and firstc[1] is True))
        def _canon_target(t_):
            t2_ = copy.deepcopy(_strip(t_))
            for x_ in ast.walk(t2_):
                if hasattr(x_, "ctx"):
                    x_.ctx = ast.Load()
            return U(_fs._Canon().visit(t2_)).replace(" ", "")
        store_at = next((i for i, st in enumerate(steps) if isinstance(st, ast.Assign) and len(st.targets) == 1 and _canon_target(st.targets[0]) == memo.replace(" ", "")), None)
        if given and store_at is not None:
            first = any(isinstance(st, ast.Expr) and isinstance(st.value, ast.Call) and U(st.value.func) == "self.extract_strokes" and [U(a) for a in st.value.args] == [tid]
                        for st in steps[:store_at])
            if not first:
                late.append((steps[store_at], "a size given before the table's borders were first read is stored without applying the stored strokes first: the lazy extraction "
                             f"(set_cell_border pops self.{sizes}[{tid}][...]) later removes it and the saved file keeps the old size"))
    probs["set"] += late
    return f, n, probs

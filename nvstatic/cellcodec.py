"""E7 layout interpreter: symbolic reading of ``Cell._from_storage`` and ``Cell._to_buffer``.

The decoder is interpreted with a symbolic offset ``12 + sum(width_b * [b in flags])``: the state
is the set of flag bits (with widths) already accounted for.  The encoder is interpreted as a
sequence of kind branches (payload) and optional blocks ``flags |= m; length += w; storage +=
pack(fmt, attr)``.  Both straight-line ``if flags & M`` code and a loop over a literal
``(mask, attr)`` table are accepted; any other statement that touches the offset is an
ANALYSIS-ERROR (never a verdict).
"""

from __future__ import annotations

import ast
import struct
from dataclasses import dataclass, field

from .core import AnalysisError, Repo, U, body_walk, call_name, dotted, last_attr, try_const

# The v5 cell storage layout as documented by the SheetJS IWA notes, to which
# docs/Numbers.md defers ("followed by the flags as described in the SheetsJS docs").
# mask, width in bytes, field name
V5_LAYOUT = [
    (0x1, 16, "decimal128"),
    (0x2, 8, "double"),
    (0x4, 8, "seconds"),
    (0x8, 4, "string_id"),
    (0x10, 4, "rich_id"),
    (0x20, 4, "cell_style_id"),
    (0x40, 4, "text_style_id"),
    (0x80, 4, "cond_style_id"),
    (0x100, 4, "cond_rule_style_id"),
    (0x200, 4, "formula_id"),
    (0x400, 4, "control_id"),
    (0x800, 4, "formula_error_id"),
    (0x1000, 4, "suggest_id"),
    (0x2000, 4, "num_format_id"),
    (0x4000, 4, "currency_format_id"),
    (0x8000, 4, "date_format_id"),
    (0x10000, 4, "duration_format_id"),
    (0x20000, 4, "text_format_id"),
    (0x40000, 4, "bool_format_id"),
    (0x80000, 4, "comment_id"),
    (0x100000, 4, "import_warning_id"),
]
V5_WIDTH = {m: w for m, w, _ in V5_LAYOUT}
V5_NAME = {m: n for m, _, n in V5_LAYOUT}
HEADER_SIZE = 12


@dataclass
class Read:
    mask: int
    target: str  # attribute / variable assigned (normalised, without storage object prefix)
    fmt: str | None  # struct format, or "d128" for the decimal helper
    slice_width: int | None
    advance: int | None
    accounted: dict  # mask -> width accounted for before this read
    node: object = None
    skipped: bool = False  # field skipped in place (no read)


@dataclass
class Decoder:
    func: object
    buffer: str
    offset_var: str
    base: int
    reads: list = field(default_factory=list)
    late_skips: list = field(default_factory=list)  # (mask set, node)
    multi_bit: list = field(default_factory=list)  # (mask, advance, node): ``if flags & <several bits>: offset += k``
    header: dict = field(default_factory=dict)  # name -> (node, slice text)
    kinds: list = field(default_factory=list)  # (type expr text, class name, args, node)
    shape: str = "straight-line"


def _mask_of_test(test, flags_var, env):
    """mask M for tests ``flags & M`` (optionally compared != 0 / == M / bool())."""
    t = test
    if isinstance(t, ast.Compare) and len(t.ops) == 1:
        if isinstance(t.ops[0], (ast.NotEq, ast.Gt)) and try_const(t.comparators[0], env) == 0:
            t = t.left
        elif isinstance(t.ops[0], ast.Eq):
            m1 = _mask_of_test(t.left, flags_var, env)
            if m1 is not None and try_const(t.comparators[0], env) == m1:
                return m1
            return None
    if isinstance(t, ast.Call) and call_name(t) == "bool" and len(t.args) == 1:
        t = t.args[0]
    if isinstance(t, ast.BinOp) and isinstance(t.op, ast.BitAnd):
        for a, b in ((t.left, t.right), (t.right, t.left)):
            if U(a) == flags_var:
                m = try_const(b, env)
                if isinstance(m, int):
                    return m
    return None


def _fmt_width(fmt: str) -> int:
    return struct.calcsize(fmt)


def _slice_of(sub: ast.Subscript, off: str, env):
    """For ``buf[off : off + W]`` return W; for ``buf[a:b]`` with constants return ('abs', a, b)."""
    sl = sub.slice
    if not isinstance(sl, ast.Slice):
        return None
    lo, hi = sl.lower, sl.upper
    if lo is not None and U(lo) == off and isinstance(hi, ast.BinOp) and isinstance(hi.op, ast.Add):
        for a, b in ((hi.left, hi.right), (hi.right, hi.left)):
            if U(a) == off:
                w = try_const(b, env)
                if isinstance(w, int):
                    return w
    a = try_const(lo, env) if lo is not None else 0
    b = try_const(hi, env) if hi is not None else None
    if isinstance(a, int) and isinstance(b, int):
        return ("abs", a, b)
    return None


def _decode_value_expr(value, buf, off, env):
    """Recognise ``unpack(fmt, buf[off:off+W])[0]`` and ``_unpack_decimal128(buf[off:off+16])``.
    Returns (fmt, slice_width) or None."""
    v = value
    if isinstance(v, ast.Subscript) and not isinstance(v.slice, ast.Slice):
        v = v.value
    if isinstance(v, ast.Call):
        name = last_attr(v.func)
        if name == "unpack" and len(v.args) == 2:
            fmt = try_const(v.args[0], env)
            arg = v.args[1]
            if isinstance(arg, ast.Call) and call_name(arg) in ("bytes", "bytearray") and arg.args:
                arg = arg.args[0]
            if isinstance(arg, ast.Subscript) and U(arg.value) == buf and isinstance(fmt, str):
                return (fmt, _slice_of(arg, off, env))
        if name == "unpack_from" and len(v.args) >= 3:
            fmt = try_const(v.args[0], env)
            if U(v.args[1]) == buf and U(v.args[2]) == off and isinstance(fmt, str):
                return (fmt, _fmt_width(fmt))
        if name and "decimal128" in name and len(v.args) == 1:
            arg = v.args[0]
            if isinstance(arg, ast.Subscript) and U(arg.value) == buf:
                return ("d128", _slice_of(arg, off, env))
    return None


def _strip_obj(target_text: str) -> str:
    return target_text.split(".")[-1]


def extract_decoder(repo: Repo, rel="cell.py", qual="Cell._from_storage") -> Decoder:
    func = repo.func(rel, qual)
    env = dict(repo.consts)
    args = [a.arg for a in func.args.args]
    buf = "buffer" if "buffer" in args else None
    if buf is None:
        # role-based fallback: the parameter that is sliced
        for n in body_walk(func):
            if isinstance(n, ast.Subscript) and isinstance(n.slice, ast.Slice) and isinstance(n.value, ast.Name):
                if n.value.id in args:
                    buf = n.value.id
                    break
    if buf is None:
        raise AnalysisError("decoder: cannot identify the buffer parameter")
    # offset variable: assigned a constant then augmented
    off = None
    base = None
    for s in func.body:
        if isinstance(s, ast.Assign) and len(s.targets) == 1 and isinstance(s.targets[0], ast.Name):
            v = try_const(s.value, env)
            name = s.targets[0].id
            if isinstance(v, int) and not isinstance(v, bool):
                if any(
                    isinstance(x, ast.AugAssign) and U(x.target) == name for x in body_walk(func)
                ):
                    off, base = name, v
                    break
    if off is None:
        raise AnalysisError("decoder: cannot identify the offset variable")
    flags_var = None
    dec = Decoder(func, buf, off, base)
    # flags variable: assigned from unpack of buffer[8:12]
    for s in func.body:
        if isinstance(s, ast.Assign) and len(s.targets) == 1:
            r = _decode_value_expr(s.value, buf, off, env)
            if r and isinstance(r[1], tuple):
                _, a, b = r[1]
                name = U(s.targets[0])
                dec.header[_strip_obj(name)] = (s, r[0], a, b)
                if (a, b) == (8, 12):
                    flags_var = name
    if flags_var is None:
        raise AnalysisError("decoder: flags word read (buffer[8:12]) not found")
    dec.header["__flags_var__"] = flags_var

    accounted: dict = {}

    def touches_offset(stmt) -> bool:
        for n in ast.walk(stmt):
            if isinstance(n, (ast.Assign, ast.AugAssign)):
                tg = n.targets if isinstance(n, ast.Assign) else [n.target]
                if any(U(t) == off for t in tg):
                    return True
        return False

    def handle_if(s: ast.If):
        m = _mask_of_test(s.test, flags_var, env)
        if m is None:
            if touches_offset(s):
                raise AnalysisError(f"decoder: offset changed under unrecognised test `{U(s.test)}` at line {s.lineno}")
            return
        if s.orelse and touches_offset(ast.Module(body=s.orelse, type_ignores=[])):
            raise AnalysisError(f"decoder: offset changed in else-branch at line {s.lineno}")
        read = None
        advance = 0
        for b in s.body:
            if isinstance(b, ast.Assign) and len(b.targets) == 1:
                r = _decode_value_expr(b.value, buf, off, env)
                if r is not None:
                    if advance:
                        raise AnalysisError(f"decoder: read after advance under mask {m:#x}")
                    read = (U(b.targets[0]), r[0], r[1], b)
                    continue
                # ``tmp = unpack(...)`` followed by ``obj.attr = tmp`` inside the same block
                if read is not None and isinstance(b.value, ast.Name) and b.value.id == read[0]:
                    read = (U(b.targets[0]), read[1], read[2], read[3])
                    continue
            if isinstance(b, ast.AugAssign) and U(b.target) == off and isinstance(b.op, ast.Add):
                w = try_const(b.value, env)
                if not isinstance(w, int):
                    raise AnalysisError(f"decoder: non-constant advance under mask {m:#x}")
                advance += w
                continue
            if touches_offset(b):
                raise AnalysisError(f"decoder: unrecognised offset update under mask {m:#x} at line {b.lineno}")
        if read is None and advance == 0:
            return
        sw = read[2] if read else None
        if isinstance(sw, tuple):
            sw = None
        dec.reads.append(
            Read(
                mask=m,
                target=_strip_obj(read[0]) if read else "",
                fmt=read[1] if read else None,
                slice_width=sw,
                advance=advance,
                accounted=dict(accounted),
                node=read[3] if read else s,
                skipped=read is None,
            )
        )
        # a test on several bits at once cannot advance by a per-bit amount
        if bin(m).count("1") != 1:
            dec.reads.pop()
            dec.multi_bit.append((m, advance, s))
            return
        accounted[m] = accounted.get(m, 0) + advance

    def handle_unconditional(s):
        # offset += W * bin(flags & MASKS).count("1")   /  popcount variants
        if isinstance(s, ast.AugAssign) and U(s.target) == off and isinstance(s.op, ast.Add):
            v = s.value
            if isinstance(v, ast.BinOp) and isinstance(v.op, ast.Mult):
                for a, b in ((v.left, v.right), (v.right, v.left)):
                    w = try_const(a, env)
                    if isinstance(w, int):
                        masks = None
                        for n in ast.walk(b):
                            if isinstance(n, ast.BinOp) and isinstance(n.op, ast.BitAnd):
                                for x, y in ((n.left, n.right), (n.right, n.left)):
                                    if U(x) == flags_var and isinstance(try_const(y, env), int):
                                        masks = try_const(y, env)
                        # W * sum(1 for m in (M1, M2, ...) if flags & m): one skip of W bytes per listed bit that is set
                        if isinstance(b, ast.Call) and call_name(b) == "sum" and len(b.args) == 1 and isinstance(b.args[0], (ast.GeneratorExp, ast.ListComp)) \
                                and len(b.args[0].generators) == 1 and try_const(b.args[0].elt, env) == 1:
                            g = b.args[0].generators[0]
                            ms = try_const(g.iter, env)
                            tst = g.ifs[0] if len(g.ifs) == 1 else None
                            if isinstance(ms, tuple) and all(isinstance(m, int) and m > 0 and m & (m - 1) == 0 for m in ms) and isinstance(g.target, ast.Name) \
                                    and isinstance(tst, ast.BinOp) and isinstance(tst.op, ast.BitAnd) and {U(tst.left), U(tst.right)} == {flags_var, g.target.id}:
                                # the same as one ``if flags & m: offset += W`` per listed bit, in the order listed, here
                                for m in ms:
                                    syn = ast.If(test=ast.BinOp(left=ast.Name(id=flags_var, ctx=ast.Load()), op=ast.BitAnd(), right=ast.Constant(m)),
                                                 body=[ast.AugAssign(target=ast.Name(id=off, ctx=ast.Store()), op=ast.Add(), value=ast.Constant(w))], orelse=[])
                                    ast.copy_location(syn, s)
                                    ast.fix_missing_locations(syn)
                                    for x in ast.walk(syn):
                                        x._file = getattr(s, "_file", None)
                                    handle_if(syn)
                                return True
                        is_pop = "count" in U(b) or "bit_count" in U(b)
                        if masks is not None and is_pop:
                            bits = [1 << i for i in range(32) if masks >> i & 1]
                            dec.late_skips.append((bits, s))
                            for bit in bits:
                                accounted[bit] = accounted.get(bit, 0) + w
                            return True
            raise AnalysisError(f"decoder: unrecognised unconditional offset update `{U(s)}`")
        return False

    def handle_for(s: ast.For):
        # loop over a literal table of (mask, attr[, fmt]) tuples
        table = s.iter
        if isinstance(table, ast.Name):
            try:
                table = repo.module_assign(rel, table.id)
            except Exception:  # noqa: BLE001
                for st in func.body:
                    if isinstance(st, ast.Assign) and U(st.targets[0]) == s.iter.id:
                        table = st.value
        rows = try_const(table, env) if table is not None else None
        if not isinstance(rows, (list, tuple)) or not touches_offset(s):
            if touches_offset(s):
                raise AnalysisError(f"decoder: offset changed in unrecognised loop at line {s.lineno}")
            return
        tnames = [U(t) for t in (s.target.elts if isinstance(s.target, ast.Tuple) else [s.target])]
        dec.shape = "table-driven"
        # interpret body once per row with the loop variables bound
        for row in rows:
            row = row if isinstance(row, (list, tuple)) else (row,)
            bind = dict(zip(tnames, row))
            env2 = dict(env)
            env2.update({k: v for k, v in bind.items()})
            for b in s.body:
                if isinstance(b, ast.If):
                    m = _mask_of_test(b.test, flags_var, env2)
                    if m is None:
                        raise AnalysisError("decoder: table loop with unrecognised test")
                    read = None
                    advance = 0
                    for c in b.body:
                        if isinstance(c, ast.AugAssign) and U(c.target) == off:
                            w = try_const(c.value, env2)
                            if not isinstance(w, int):
                                raise AnalysisError("decoder: table loop non-constant advance")
                            advance += w
                        elif isinstance(c, ast.Expr) and isinstance(c.value, ast.Call) and call_name(c.value) == "setattr":
                            a = c.value.args
                            r = _decode_value_expr(a[2], buf, off, env2)
                            tname = try_const(a[1], env2)
                            if r is None or not isinstance(tname, str):
                                raise AnalysisError("decoder: table loop unrecognised setattr")
                            read = (tname, r[0], r[1], c)
                        elif isinstance(c, ast.If):
                            # optional "if attr is not None: setattr(...)" for skipped fields
                            for d in c.body:
                                if isinstance(d, ast.Expr) and isinstance(d.value, ast.Call) and call_name(d.value) == "setattr":
                                    a = d.value.args
                                    r = _decode_value_expr(a[2], buf, off, env2)
                                    tname = try_const(a[1], env2)
                                    if r is not None and isinstance(tname, str):
                                        cond_ok = True
                                        # evaluate ``name is not None`` with the bound row
                                        t = c.test
                                        if isinstance(t, ast.Compare) and isinstance(t.ops[0], ast.IsNot):
                                            cond_ok = try_const(t.left, env2) is not None
                                        elif isinstance(t, ast.Name):
                                            cond_ok = bool(try_const(t, env2))
                                        if cond_ok:
                                            read = (tname, r[0], r[1], d)
                        elif touches_offset(c):
                            raise AnalysisError("decoder: table loop unrecognised offset update")
                    sw = read[2] if read else None
                    if isinstance(sw, tuple):
                        sw = None
                    dec.reads.append(
                        Read(m, _strip_obj(read[0]) if read else "", read[1] if read else None, sw,
                             advance, dict(accounted), read[3] if read else b, skipped=read is None)
                    )
                    accounted[m] = accounted.get(m, 0) + advance
                elif touches_offset(b):
                    raise AnalysisError("decoder: table loop unrecognised statement")

    for s in func.body:
        if isinstance(s, ast.If):
            handle_if(s)
        elif isinstance(s, ast.For):
            handle_for(s)
        elif isinstance(s, ast.AugAssign) and U(s.target) == off:
            handle_unconditional(s)
        elif isinstance(s, ast.Assign) and any(U(t) == off for t in s.targets):
            v = try_const(s.value, env)
            if v != base or accounted:
                raise AnalysisError(f"decoder: offset reassigned at line {s.lineno}")
        elif touches_offset(s):
            raise AnalysisError(f"decoder: offset changed inside `{type(s).__name__}` at line {s.lineno}")

    dec.header["__accounted_end__"] = dict(accounted)
    # kind branches: ``if cell_type == X: cell = Cls(...)``
    type_var = None
    for s in func.body:
        if isinstance(s, ast.Assign) and isinstance(s.value, ast.Subscript) and U(s.value.value) == buf:
            idx = try_const(s.value.slice, env)
            if idx == 1:
                type_var = U(s.targets[0])
                dec.header["type"] = (s, "B", 1, 2)
            if idx == 0:
                dec.header["version"] = (s, "B", 0, 1)
    if type_var:
        for s in func.body:
            if isinstance(s, ast.If):
                node = s
                while True:
                    t = node.test
                    if isinstance(t, ast.Compare) and U(t.left) == type_var and isinstance(t.ops[0], ast.Eq):
                        cls = None
                        call = None
                        for b in node.body:
                            if isinstance(b, ast.Assign) and isinstance(b.value, ast.Call):
                                cls = call_name(b.value)
                                call = b.value
                                break
                        dec.kinds.append((U(t.comparators[0]), cls, call, node))
                    if len(node.orelse) == 1 and isinstance(node.orelse[0], ast.If):
                        node = node.orelse[0]
                    else:
                        break
    return dec


# --------------------------------------------------------------------------- encoder


@dataclass
class KindBranch:
    cls: str
    flags: int | None
    length_add: int
    payload_width: int | None
    payload_fmt: str | None
    type_expr: str
    value_expr: object
    node: object
    returns_none: bool = False
    type_conds: list = field(default_factory=list)  # conditions (locals substituted) that choose between type bytes


@dataclass
class Block:
    attr: str
    mask: int | None
    length_add: int
    fmt: str | None
    emitted_attr: str | None
    width: int | None
    byte6: int
    node: object
    appends: int = 1


@dataclass
class Encoder:
    func: object
    kinds: list = field(default_factory=list)
    blocks: list = field(default_factory=list)
    header: dict = field(default_factory=dict)
    byte6_extra: list = field(default_factory=list)  # (attr, bit, node) set without a flag block
    storage_var: str = "storage"
    flags_var: str = "flags"
    length_var: str = "length"
    base_length: int | None = None


def _pack_info(value, env):
    """(fmt, width, arg_text) for pack(fmt, x) / _pack_decimal128(x) / b"" """
    if isinstance(value, ast.Constant) and isinstance(value.value, bytes):
        return ("bytes", len(value.value), None)
    if isinstance(value, ast.Call):
        name = last_attr(value.func)
        if name == "pack" and len(value.args) >= 2:
            fmt = try_const(value.args[0], env)
            if isinstance(fmt, str):
                return (fmt, _fmt_width(fmt), U(value.args[1]))
        if name and "decimal128" in name and len(value.args) == 1:
            return ("d128", 16, U(value.args[0]))
        if name in ("bytearray", "bytes") and len(value.args) == 1:
            n = try_const(value.args[0], env)
            if isinstance(n, int):
                return ("zeros", n, None)
    return None


def extract_encoder(repo: Repo, rel="cell.py", qual="Cell._to_buffer") -> Encoder:
    func = repo.func(rel, qual)
    env = dict(repo.consts)
    enc = Encoder(func)
    # locate storage/flags/length variables by role
    for s in func.body:
        if isinstance(s, ast.Assign) and len(s.targets) == 1 and isinstance(s.targets[0], ast.Name):
            v = try_const(s.value, env)
            if isinstance(v, int) and not isinstance(v, bool) and v == HEADER_SIZE:
                enc.length_var = s.targets[0].id
                enc.base_length = v
            # ``length = 12 + len(value)``: the payload is counted by construction
            if isinstance(s.value, ast.BinOp) and isinstance(s.value.op, ast.Add):
                for a, b in ((s.value.left, s.value.right), (s.value.right, s.value.left)):
                    if try_const(a, env) == HEADER_SIZE and isinstance(b, ast.Call) and call_name(b) == "len" and len(b.args) == 1 and isinstance(b.args[0], ast.Name):
                        enc.length_var = s.targets[0].id
                        enc.base_length = HEADER_SIZE
                        enc.header["__length_counts__"] = b.args[0].id
            info = _pack_info(s.value, env)
            if info and info[0] == "zeros":
                enc.storage_var = s.targets[0].id
                enc.header["alloc"] = (s, info[1])
    # roles: payload variable (first ``storage += <name>``), type variable (``storage[1] = <name>``),
    # flags variable (``storage[8:12] = pack(fmt, <name>)``), length variable (``return storage[0:<name>]``)
    payload_var, type_var = "value", "cell_type"
    for s_ in func.body:
        if isinstance(s_, ast.AugAssign) and U(s_.target) == enc.storage_var and isinstance(s_.op, ast.Add) and isinstance(s_.value, ast.Name):
            payload_var = s_.value.id
            break
    for s_ in func.body:
        if isinstance(s_, ast.Assign) and isinstance(s_.targets[0], ast.Subscript) and U(s_.targets[0].value) == enc.storage_var:
            sub = s_.targets[0]
            if not isinstance(sub.slice, ast.Slice) and try_const(sub.slice, env) == 1 and isinstance(s_.value, ast.Name):
                type_var = s_.value.id
            if isinstance(sub.slice, ast.Slice) and try_const(sub.slice.lower, env) == 8 and isinstance(s_.value, ast.Call) and len(s_.value.args) == 2 and isinstance(s_.value.args[1], ast.Name):
                enc.flags_var = s_.value.args[1].id
        if isinstance(s_, ast.Return) and isinstance(s_.value, ast.Subscript) and isinstance(s_.value.slice, ast.Slice) and isinstance(s_.value.slice.upper, ast.Name):
            if U(s_.value.value) == enc.storage_var:
                enc.length_var = s_.value.slice.upper.id
    enc.header["__payload_var__"] = payload_var
    enc.header["__type_var__"] = type_var
    # kind chain: the if/elif over isinstance(self, X)
    chain = None
    for s in func.body:
        if isinstance(s, ast.If) and "isinstance(self" in U(s.test) and any(
            isinstance(n, ast.Assign) and U(n.targets[0]) == enc.flags_var for n in ast.walk(s)
        ):
            chain = s
            break
    if chain is None:
        raise AnalysisError("encoder: kind dispatch chain not found")
    node = chain
    while True:
        t = node.test
        cls = None
        if isinstance(t, ast.Call) and call_name(t) == "isinstance" and len(t.args) == 2:
            cls = U(t.args[1])
        kb = KindBranch(cls or U(t), None, 0, None, None, "", None, node)
        from .symexec import subst as _subst
        local_env = {}
        for b in node.body:
            if isinstance(b, ast.Assign) and len(b.targets) == 1 and isinstance(b.targets[0], ast.Name) and U(b.targets[0]) not in (enc.flags_var, type_var, payload_var):
                local_env[b.targets[0].id] = _subst(b.value, local_env)
            if isinstance(b, ast.Assign) and len(b.targets) == 1:
                tg = U(b.targets[0])
                if tg == enc.flags_var:
                    kb.flags = try_const(b.value, env)
                elif tg == type_var:
                    if isinstance(b.value, ast.IfExp):
                        kb.type_conds.append(_subst(b.value.test, local_env))
                        kb.type_expr = U(b.value.body) + "|" + U(b.value.orelse)
                    else:
                        kb.type_expr = U(b.value)
                elif tg == payload_var:
                    info = _pack_info(b.value, env)
                    kb.value_expr = b.value
                    if info:
                        kb.payload_fmt, kb.payload_width = info[0], info[1]
            elif isinstance(b, ast.AugAssign) and U(b.target) == enc.length_var:
                w = try_const(b.value, env)
                kb.length_add += w if isinstance(w, int) else 10**6
            elif isinstance(b, ast.Return):
                kb.returns_none = True
            elif isinstance(b, ast.If):
                # nested choice of cell_type (currency vs number)
                types = [U(x.value) for x in ast.walk(b) if isinstance(x, ast.Assign) and U(x.targets[0]) == type_var]
                if types:
                    kb.type_expr = "|".join(types)
                    kb.type_conds += [_subst(x.test, local_env) for x in ast.walk(b) if isinstance(x, ast.If) and any(
                        isinstance(y, ast.Assign) and U(y.targets[0]) == type_var for y in ast.walk(x))]
        if enc.header.get("__length_counts__") == payload_var and kb.payload_width is not None:
            kb.length_add += kb.payload_width
        enc.kinds.append(kb)
        if len(node.orelse) == 1 and isinstance(node.orelse[0], ast.If):
            node = node.orelse[0]
        else:
            if node.orelse:
                kb2 = KindBranch("<else>", None, 0, None, None, "", None, node.orelse[0])
                kb2.returns_none = any(isinstance(x, ast.Return) for x in node.orelse)
                enc.kinds.append(kb2)
            break
    # header writes and optional blocks after the chain
    after = func.body[func.body.index(chain) + 1 :]
    for s in after:
        if isinstance(s, ast.Assign) and len(s.targets) == 1 and isinstance(s.targets[0], ast.Subscript):
            sub = s.targets[0]
            if U(sub.value) == enc.storage_var:
                if isinstance(sub.slice, ast.Slice):
                    a, b = try_const(sub.slice.lower, env), try_const(sub.slice.upper, env)
                    info = _pack_info(s.value, env)
                    enc.header[f"[{a}:{b}]"] = (s, info, U(s.value))
                else:
                    idx = try_const(sub.slice, env)
                    enc.header[f"[{idx}]"] = (s, None, U(s.value))
        if isinstance(s, ast.AugAssign) and U(s.target) == enc.storage_var and isinstance(s.op, ast.Add):
            if U(s.value) == payload_var:
                enc.header["payload"] = (s, None, "value")
        if isinstance(s, ast.If):
            t = s.test
            attr = None
            if isinstance(t, ast.Compare) and isinstance(t.ops[0], ast.IsNot) and U(t.comparators[0]) == "None":
                attr = _strip_obj(U(t.left))
            if attr is None:
                continue
            mask = None
            ladd = 0
            fmt = None
            emitted = None
            width = None
            byte6 = 0
            appends = 0
            for b in s.body:
                if isinstance(b, ast.AugAssign):
                    tg = U(b.target)
                    if tg == enc.flags_var and isinstance(b.op, ast.BitOr):
                        mask = try_const(b.value, env)
                    elif tg == enc.length_var and isinstance(b.op, ast.Add):
                        w = try_const(b.value, env)
                        ladd += w if isinstance(w, int) else 10**6
                    elif tg == enc.storage_var and isinstance(b.op, ast.Add):
                        info = _pack_info(b.value, env)
                        appends += 1
                        if info:
                            fmt, width = info[0], (width or 0) + info[1]
                            emitted = _strip_obj(info[2]) if info[2] else None
                        else:
                            width = None
                    elif isinstance(b.target, ast.Subscript) and U(b.target.value) == enc.storage_var and isinstance(b.op, ast.BitOr):
                        if try_const(b.target.slice, env) == 6:
                            byte6 |= try_const(b.value, env) or 0
            if mask is None and ladd == 0 and appends == 0:
                if byte6:
                    enc.byte6_extra.append((attr, byte6, s))
                continue
            enc.blocks.append(Block(attr, mask, ladd, fmt, emitted, width, byte6, s, appends))
    # return storage[0:length]
    for s in after:
        if isinstance(s, ast.Return) and s.value is not None:
            enc.header["return"] = (s, None, U(s.value))
    return enc


def parse_byte6_doc(repo: Repo) -> dict:
    """docs/Numbers.md 'Cell formats' table: bit -> description words for byte offset 6."""
    text = repo.source("docs/Numbers.md")
    out = {}
    in_six = False
    import re

    for line in text.splitlines():
        m = re.match(r"\|\s*([0-9\-]*)\s*\|\s*(.*?)\s*\|\s*$", line)
        if not m:
            if in_six and not line.strip().startswith("|"):
                in_six = False
            continue
        off, note = m.group(1), m.group(2)
        if off == "6":
            in_six = True
        elif off:
            in_six = False
        if in_six:
            mm = re.match(r"(0x[0-9a-fA-F]+) is set when there is an? (.*?) ID", note)
            if mm:
                out[int(mm.group(1), 16)] = mm.group(2).strip().lower()
    return out

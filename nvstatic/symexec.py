"""Small source-level symbolic helpers shared by the property modules.

* ``Straight``: forward substitution of local names through the *top-level* statements of a function, so that a rule
  can ask "what expression, over the parameters, is ``x`` at this statement?" whatever temporaries the code uses.
  Assignments to plain names, augmented assignments, and ``if``/``else`` whose arms only assign names (turned into
  conditional expressions) are followed; a name assigned inside a loop, ``with`` or ``try`` is killed (opaque).
* ``loop_domain``: the index range a ``for``/``while`` loop runs over, for the loop spellings used for counting loops.
* ``body_paths``: the acyclic paths through a loop body (``if``/``else``, ``continue``, ``break``), each with the branch
  outcomes taken and the simple statements executed in order.
* ``lin_opaque``: linear form of an expression in which non-linear sub-expressions are atoms.

Nothing is executed: everything is a rewrite of ``ast`` nodes.
"""

from __future__ import annotations

import ast
import copy

from .core import U, call_name, try_const
from .linear import Lin, lin


# --------------------------------------------------------------------------- substitution


class _Sub(ast.NodeTransformer):
    def __init__(self, env, mark=False):
        self.env = env
        self.mark = mark  # tag what is put in (``_fz``): a value computed earlier, not to be read again against later stores

    def _put(self, v):
        v = copy.deepcopy(v)
        if self.mark:
            v._fz = True
        return v

    def visit_Name(self, node):
        if isinstance(node.ctx, ast.Load) and node.id in self.env and self.env[node.id] is not None:
            return self._put(self.env[node.id])
        return node

    def visit_Attribute(self, node):
        if isinstance(node.ctx, ast.Load):
            key = _attr_key(node)
            if key is not None and key in self.env and self.env[key] is not None:
                return self._put(self.env[key])
        return self.generic_visit(node)

    # do not substitute inside comprehension targets / lambdas (their own scope)
    def visit_Lambda(self, node):
        return node


def _attr_key(node):
    """``self.a`` / ``self.a.b`` as an environment key, else None."""
    parts = []
    n = node
    while isinstance(n, ast.Attribute):
        parts.append(n.attr)
        n = n.value
    if isinstance(n, ast.Name) and n.id == "self" and parts:
        return "self." + ".".join(reversed(parts))
    return None


def subst(expr, env):
    """Copy of ``expr`` with the names of ``env`` replaced by their expressions."""
    return _Sub(env).visit(copy.deepcopy(_strip(expr)))


def _strip(node):
    """deepcopy-safe view: drop the parent back-links the Repo index adds."""
    if not any(hasattr(n, "_parent") for n in ast.walk(node)):
        return node
    src = ast.unparse(node)
    new = ast.parse(src, mode="eval").body if isinstance(node, ast.expr) else ast.parse(src).body[0]
    for n in ast.walk(new):
        if hasattr(node, "lineno") and not hasattr(n, "lineno"):
            n.lineno = node.lineno
            n.col_offset = 0
    return new


def _assigned_names(stmts):
    out = set()
    for s in stmts:
        for n in ast.walk(s):
            if isinstance(n, ast.Name) and isinstance(n.ctx, (ast.Store, ast.Del)):
                out.add(n.id)
    return out


class Straight:
    """Forward substitution through the top-level statements of ``func``."""

    OPAQUE = None

    def __init__(self, func, depth_limit: int = 4000, stmts=None, env=None):
        self.func = func
        self.limit = depth_limit
        self.snap = {}  # id(stmt) -> env before the statement
        self.final = {}
        env = dict(env or {})
        self._block(func.body if stmts is None else stmts, env)
        self.final = env

    def _size_ok(self, e):
        return sum(1 for _ in ast.walk(e)) <= self.limit

    def _kill_dependents(self, env, name):
        for k, v in list(env.items()):
            if v is not None and k != name and any(isinstance(n, ast.Name) and n.id == name for n in ast.walk(v)):
                # the stored expression mentions a name whose value is about to change: it was already substituted at
                # assignment time, so only *unsubstituted* (opaque) names can appear here; the expression stays valid
                # only if that name is not reassigned -> freeze it under a versioned opaque atom
                env[k] = None

    def _assign(self, env, name, value_expr):
        new = subst(value_expr, env) if value_expr is not None else None
        if new is not None and not self._size_ok(new):
            new = None
        # every stored expression is written over the values names had on entry; a name that becomes unknown can no
        # longer be told apart from its entry value, so what mentions it is dropped too
        if new is None:
            self._kill_dependents(env, name)
        env[name] = new

    def _block(self, stmts, env):
        for st in stmts:
            self.snap[id(st)] = dict(env)
            if isinstance(st, ast.Assign) and len(st.targets) == 1 and isinstance(st.targets[0], ast.Name):
                self._assign(env, st.targets[0].id, st.value)
            elif isinstance(st, ast.AnnAssign) and isinstance(st.target, ast.Name) and st.value is not None:
                self._assign(env, st.target.id, st.value)
            elif isinstance(st, ast.AugAssign) and isinstance(st.target, ast.Name):
                cur = ast.Name(id=st.target.id, ctx=ast.Load())
                self._assign(env, st.target.id, ast.BinOp(left=cur, op=st.op, right=st.value))
            elif isinstance(st, ast.Assign) and len(st.targets) == 1 and isinstance(st.targets[0], ast.Attribute) and _attr_key(st.targets[0]) \
                    and not self._calls_self_method(st.value):
                v = st.value
                mutable = isinstance(v, (ast.Dict, ast.List, ast.Set, ast.ListComp, ast.DictComp, ast.SetComp)) or (
                    isinstance(v, ast.Call) and not (isinstance(v.func, ast.Name) and v.func.id in ("int", "float", "str", "bool", "len", "max", "min", "round", "abs", "tuple", "frozenset"))
                    and not (isinstance(v.func, ast.Attribute) and isinstance(v.func.value, ast.Name) and v.func.value.id == "math"))
                # the contents of a container (or of an object built by a call) change without the attribute being rebound
                self._assign(env, _attr_key(st.targets[0]), None if mutable else v)
            elif isinstance(st, ast.If) and self._only_name_assigns(st):
                e1, e2 = dict(env), dict(env)
                self._block(st.body, e1)
                self._block(st.orelse, e2)
                test = subst(st.test, env)
                for name in _assigned_names(st.body) | _assigned_names(st.orelse):
                    a = e1.get(name, ast.Name(id=name, ctx=ast.Load()))
                    b = e2.get(name, ast.Name(id=name, ctx=ast.Load()))
                    if a is None or b is None:
                        self._kill_dependents(env, name)
                        env[name] = None
                    else:
                        new = ast.IfExp(test=copy.deepcopy(test), body=a, orelse=b)
                        if not self._size_ok(new):
                            self._kill_dependents(env, name)
                            new = None
                        env[name] = new
            else:
                # anything else: names stored anywhere inside are opaque afterwards; a call of a method of self may
                # rebind any tracked attribute of self
                if self._calls_self_method(st):
                    for k in [k for k in env if k.startswith("self.")]:
                        env[k] = None
                for n in ast.walk(st):
                    if isinstance(n, ast.Attribute) and isinstance(n.ctx, ast.Store) and _attr_key(n):
                        env[_attr_key(n)] = None
                for st2 in ast.walk(st):
                    self.snap.setdefault(id(st2), dict(env)) if isinstance(st2, ast.stmt) else None
                for name in _assigned_names([st]):
                    self._kill_dependents(env, name)
                    env[name] = None

    @staticmethod
    def _calls_self_method(node):
        for n in ast.walk(node):
            if isinstance(n, ast.Call):
                f = n.func
                # a direct method of self (self.m(...)) may rebind attributes of self; self.a.m(...) cannot rebind them
                if isinstance(f, ast.Attribute) and isinstance(f.value, ast.Name) and f.value.id == "self":
                    return True
        return False

    @staticmethod
    def _only_name_assigns(st):
        for blk in (st.body, st.orelse):
            for s in blk:
                if isinstance(s, ast.Pass):
                    continue
                if isinstance(s, ast.Assign) and len(s.targets) == 1 and isinstance(s.targets[0], ast.Name):
                    continue
                if isinstance(s, ast.AugAssign) and isinstance(s.target, ast.Name):
                    continue
                if isinstance(s, ast.If) and Straight._only_name_assigns(s):
                    continue
                return False
        return True

    def at(self, stmt, expr):
        """``expr`` as it evaluates just before ``stmt`` runs, over names that are not locally defined."""
        env = self.snap.get(id(stmt))
        if env is None:
            p = getattr(stmt, "_parent", None)
            while p is not None and id(p) not in self.snap:
                p = getattr(p, "_parent", None)
            env = self.snap.get(id(p), {}) if p is not None else {}
        return subst(expr, env)

    def at_end(self, expr):
        return subst(expr, self.final)


# --------------------------------------------------------------------------- linear forms with opaque atoms


def lin_opaque(node, env=None) -> Lin:
    """Like ``linear.lin`` but never fails: a sub-expression that is not linear becomes an atom named by its text."""
    env = env or {}
    direct = lin(node, env)
    if direct is not None:
        return direct
    if isinstance(node, ast.UnaryOp) and isinstance(node.op, ast.USub):
        return lin_opaque(node.operand, env).scale(-1)
    if isinstance(node, ast.BinOp) and isinstance(node.op, (ast.Add, ast.Sub)):
        a, b = lin_opaque(node.left, env), lin_opaque(node.right, env)
        return a + b if isinstance(node.op, ast.Add) else a - b
    if isinstance(node, ast.BinOp) and isinstance(node.op, ast.Mult):
        ca, cb = try_const(node.left, env), try_const(node.right, env)
        if isinstance(ca, int) and not isinstance(ca, bool):
            return lin_opaque(node.right, env).scale(ca)
        if isinstance(cb, int) and not isinstance(cb, bool):
            return lin_opaque(node.left, env).scale(cb)
    return Lin(0, {f"<{U(node)}>": 1})


# --------------------------------------------------------------------------- loops


def _unwrap_alias(func, e):
    """Follow ``x = <expr>`` single assignments of a plain local (at most 3 hops)."""
    hops = 0
    while isinstance(e, ast.Name) and hops < 3:
        defs = [n for n in ast.walk(func) if isinstance(n, (ast.Assign, ast.AnnAssign))
                and ((isinstance(n, ast.Assign) and len(n.targets) == 1 and isinstance(n.targets[0], ast.Name) and n.targets[0].id == e.id)
                     or (isinstance(n, ast.AnnAssign) and isinstance(n.target, ast.Name) and n.target.id == e.id and n.value is not None))]
        others = [n for n in ast.walk(func) if isinstance(n, ast.Name) and n.id == e.id and isinstance(n.ctx, ast.Store)]
        if len(defs) != 1 or len(others) != 1:
            break
        e = defs[0].value
        hops += 1
    return e


def loop_domain(loop, func, env=None):
    """Index domain of a counting loop.

    Returns a dict: ``var`` (index name or None), ``lo``/``hi`` (Lin, hi exclusive) , ``step`` (+1/-1), ``elem``
    (name bound to the element or None), ``seq`` (expression iterated when the loop walks a sequence) — or None when
    the loop is not one of the recognised counting spellings:

    ``for i in range(n)`` / ``range(a, b)`` / ``range(a, b, ±1)`` / ``reversed(range(..))``;
    ``for i, x in enumerate(S)`` (domain 0..len(S)); ``for x in S`` (domain 0..len(S), no index name);
    ``while i < N`` / ``i <= N`` with ``i = <k>`` before the loop, a single ``i += 1`` as the last statement of the body
    and no ``continue`` in the body.
    """
    env = env or {}
    if isinstance(loop, ast.For):
        it = loop.iter
        rev = False
        if isinstance(it, ast.Call) and call_name(it) == "reversed" and len(it.args) == 1:
            rev, it = True, it.args[0]
        if isinstance(it, ast.Call) and call_name(it) == "range" and isinstance(loop.target, ast.Name) and not it.keywords:
            a = it.args
            step = try_const(a[2], env) if len(a) == 3 else 1
            if step not in (1, -1):
                return None
            lo = lin_opaque(a[0], env) if len(a) >= 2 else Lin(0)
            hi = lin_opaque(a[1] if len(a) >= 2 else a[0], env)
            if step == -1:
                # range(a, b, -1) visits a, a-1, ..., b+1
                lo, hi = hi + Lin(1), lo + Lin(1)
            if rev:
                step = -step
            return {"var": loop.target.id, "lo": lo, "hi": hi, "step": step, "elem": None, "seq": None}
        if isinstance(it, ast.Call) and call_name(it) == "enumerate" and len(it.args) == 1 and not it.keywords \
                and isinstance(loop.target, ast.Tuple) and len(loop.target.elts) == 2 and all(isinstance(e, ast.Name) for e in loop.target.elts):
            seq = _unwrap_alias(func, it.args[0])
            return {"var": loop.target.elts[0].id, "lo": Lin(0), "hi": Lin(0, {f"len({U(seq)})": 1}), "step": -1 if rev else 1,
                    "elem": loop.target.elts[1].id, "seq": seq}
        if isinstance(loop.target, ast.Name) and isinstance(it, (ast.Name, ast.Attribute, ast.Subscript)):
            seq = _unwrap_alias(func, it)
            return {"var": None, "lo": Lin(0), "hi": Lin(0, {f"len({U(seq)})": 1}), "step": -1 if rev else 1, "elem": loop.target.id, "seq": seq}
        return None
    if isinstance(loop, ast.While):
        t = loop.test
        if not (isinstance(t, ast.Compare) and len(t.ops) == 1 and isinstance(t.left, ast.Name) and isinstance(t.ops[0], (ast.Lt, ast.LtE))):
            return None
        var = t.left.id
        hi = lin_opaque(t.comparators[0], env)
        if isinstance(t.ops[0], ast.LtE):
            hi = hi + Lin(1)
        last = loop.body[-1] if loop.body else None
        incs = [n for n in ast.walk(loop) if isinstance(n, (ast.AugAssign, ast.Assign)) and any(
            isinstance(x, ast.Name) and x.id == var and isinstance(x.ctx, ast.Store) for x in ast.walk(n))]
        if not (isinstance(last, ast.AugAssign) and isinstance(last.op, ast.Add) and isinstance(last.target, ast.Name) and last.target.id == var
                and try_const(last.value, env) == 1 and len(incs) == 1):
            return None
        if any(isinstance(n, ast.Continue) for n in ast.walk(loop)):
            return None
        if any(isinstance(x, ast.Name) and isinstance(x.ctx, ast.Store) for c in t.comparators for x in ast.walk(c)):
            return None
        # initial value: the assignment to var that dominates the loop, at the same block level before it
        par = getattr(loop, "_parent", None)
        body = None
        for fld in ("body", "orelse", "finalbody"):
            blk = getattr(par, fld, None)
            if isinstance(blk, list) and any(s is loop for s in blk):
                body = blk
        init = None
        if body is not None:
            for s in body[: [i for i, s in enumerate(body) if s is loop][0]]:
                if isinstance(s, ast.Assign) and len(s.targets) == 1 and isinstance(s.targets[0], ast.Name) and s.targets[0].id == var:
                    init = s.value
                elif any(isinstance(x, ast.Name) and x.id == var and isinstance(x.ctx, ast.Store) for x in ast.walk(s)):
                    init = None
        if init is None:
            return None
        return {"var": var, "lo": lin_opaque(init, env), "hi": hi, "step": 1, "elem": None, "seq": None, "increment": last}
    return None


def body_paths(stmts, limit: int = 256):
    """Acyclic paths through a statement list.  Each path: ``(conds, steps, end)`` where ``conds`` is a list of
    ``(test_node, outcome)``, ``steps`` the simple statements (nested loops/with/try appear as one opaque step) in
    execution order and ``end`` one of ``"fall"``, ``"continue"``, ``"break"``, ``"return"``, ``"raise"``."""
    paths = [([], [], "fall")]
    for st in stmts:
        new = []
        for conds, steps, end in paths:
            if end != "fall":
                new.append((conds, steps, end))
                continue
            if isinstance(st, ast.If):
                for outcome, blk in ((True, st.body), (False, st.orelse)):
                    for c2, s2, e2 in body_paths(blk, limit):
                        new.append((conds + [(st.test, outcome)] + c2, steps + s2, e2))
            elif isinstance(st, ast.Continue):
                new.append((conds, steps, "continue"))
            elif isinstance(st, ast.Break):
                new.append((conds, steps, "break"))
            elif isinstance(st, ast.Return):
                new.append((conds, steps + [st], "return"))
            elif isinstance(st, ast.Raise):
                new.append((conds, steps + [st], "raise"))
            elif isinstance(st, ast.Pass):
                new.append((conds, steps, end))
            else:
                new.append((conds, steps + [st], end))
        if len(new) > limit:
            raise ValueError("too many paths")
        paths = new
    return paths


def none_test(test, name):
    """For ``name is None`` -> True, ``name is not None`` -> False (the outcome of the test when name is None); else None."""
    if isinstance(test, ast.Compare) and len(test.ops) == 1 and isinstance(test.left, ast.Name) and test.left.id == name \
            and isinstance(test.comparators[0], ast.Constant) and test.comparators[0].value is None:
        if isinstance(test.ops[0], ast.Is):
            return True
        if isinstance(test.ops[0], ast.IsNot):
            return False
    if isinstance(test, ast.UnaryOp) and isinstance(test.op, ast.Not):
        inner = none_test(test.operand, name)
        return None if inner is None else (not inner)
    return None


def min_terms(expr, env=None):
    """If ``expr`` is ``min(a, b)`` or a conditional that selects the smaller of two linear terms
    (``b if a > b else a`` and its spellings) return the two terms as Lin; else None."""
    env = env or {}
    if isinstance(expr, ast.Call) and call_name(expr) == "min" and len(expr.args) == 2 and not expr.keywords:
        return [lin_opaque(expr.args[0], env), lin_opaque(expr.args[1], env)]
    if isinstance(expr, ast.IfExp) and isinstance(expr.test, ast.Compare) and len(expr.test.ops) == 1:
        op = expr.test.ops[0]
        a, b = lin_opaque(expr.test.left, env), lin_opaque(expr.test.comparators[0], env)
        t, f = lin_opaque(expr.body, env), lin_opaque(expr.orelse, env)
        if isinstance(op, (ast.Gt, ast.GtE)):  # a > b  -> smaller is b
            small, big = b, a
        elif isinstance(op, (ast.Lt, ast.LtE)):
            small, big = a, b
        else:
            return None
        if t.key() == small.key() and f.key() == big.key():
            return [a, b]
    return None


def running_max(loop, var):
    """The expression folded into ``var`` by a running maximum inside ``loop``
    (``if e > var: var = e`` / ``var = max(var, e)`` / ``var = e if e > var else var``), else None."""
    for n in ast.walk(loop):
        if isinstance(n, ast.Assign) and len(n.targets) == 1 and isinstance(n.targets[0], ast.Name) and n.targets[0].id == var:
            v = n.value
            if isinstance(v, ast.Call) and call_name(v) == "max" and len(v.args) == 2 and not v.keywords:
                a, b = v.args
                if U(a) == var:
                    return b
                if U(b) == var:
                    return a
            par = getattr(n, "_parent", None)
            if isinstance(par, ast.If) and not par.orelse and len(par.body) == 1 and isinstance(par.test, ast.Compare) and len(par.test.ops) == 1:
                l, r, op = par.test.left, par.test.comparators[0], par.test.ops[0]
                if isinstance(op, (ast.Gt, ast.GtE)) and U(l) == U(v) and U(r) == var:
                    return v
                if isinstance(op, (ast.Lt, ast.LtE)) and U(r) == U(v) and U(l) == var:
                    return v
            if isinstance(v, ast.IfExp) and isinstance(v.test, ast.Compare) and len(v.test.ops) == 1 and U(v.orelse) == var:
                l, r, op = v.test.left, v.test.comparators[0], v.test.ops[0]
                if isinstance(op, (ast.Gt, ast.GtE)) and U(l) == U(v.body) and U(r) == var:
                    return v.body
    return None


def const_key_stores(func, receiver_texts):
    """Stores ``R[<const str>] = value`` in ``func`` where R is one of ``receiver_texts`` or a local alias of one; a
    ``for name in (<const strs>): R[name] = value`` loop is expanded.  Returns {key: [(value_node, stmt)]}."""
    recv = set(receiver_texts)
    for n in ast.walk(func):
        if isinstance(n, ast.Assign) and len(n.targets) == 1 and isinstance(n.targets[0], ast.Name) and U(n.value) in recv:
            recv.add(n.targets[0].id)
    out = {}
    for n in ast.walk(func):
        if isinstance(n, ast.Assign) and len(n.targets) == 1 and isinstance(n.targets[0], ast.Subscript) and U(n.targets[0].value) in recv:
            k = n.targets[0].slice
            kc = try_const(k)
            if isinstance(kc, str):
                out.setdefault(kc, []).append((n.value, n))
            elif isinstance(k, ast.Name):
                p = getattr(n, "_parent", None)
                if isinstance(p, ast.For) and isinstance(p.target, ast.Name) and p.target.id == k.id and isinstance(p.iter, (ast.Tuple, ast.List)):
                    for e in p.iter.elts:
                        ec = try_const(e)
                        if isinstance(ec, str):
                            out.setdefault(ec, []).append((n.value, n))
    return out, recv


def expand_aliases(func, node, limit: int = 6):
    """Copy of ``node`` in which local names that are assigned exactly once in ``func`` from a side-effect free
    attribute/subscript chain (``x = a.b[0].c``) are replaced by that chain, transitively."""
    single = {}
    stores = {}
    for n in ast.walk(func):
        if isinstance(n, ast.Name) and isinstance(n.ctx, (ast.Store, ast.Del)):
            stores[n.id] = stores.get(n.id, 0) + 1
    for a in func.args.args + func.args.kwonlyargs:
        stores[a.arg] = stores.get(a.arg, 0) + 1

    def chain(e):
        while isinstance(e, (ast.Attribute, ast.Subscript)):
            if isinstance(e, ast.Subscript) and not isinstance(e.slice, (ast.Constant, ast.Name)):
                return False
            e = e.value
        return isinstance(e, ast.Name)

    for n in ast.walk(func):
        if isinstance(n, ast.Assign) and len(n.targets) == 1 and isinstance(n.targets[0], ast.Name) and stores.get(n.targets[0].id) == 1 and chain(n.value) \
                and not isinstance(n.value, ast.Name):
            single[n.targets[0].id] = _strip(n.value)
    out = _strip(node)
    for _ in range(limit):
        before = ast.dump(out)
        out = _Sub(single).visit(copy.deepcopy(out))
        if ast.dump(out) == before:
            break
    return out


# text cache for the atoms of conditions that are evaluated again and again under different assignments (set to a dict
# by the caller for the duration of one comparison; entries keep their node alive so that ids stay unique)
UCACHE = None


def _u(node):
    if UCACHE is None:
        return U(node)
    hit = UCACHE.get(id(node))
    if hit is not None and hit[0] is node:
        return hit[1]
    t = U(node)
    UCACHE[id(node)] = (node, t)
    return t


def _pos_key(test, pos):
    if UCACHE is None:
        return U(ast.Compare(left=test.left, ops=[pos], comparators=test.comparators))
    hit = UCACHE.get(("pos", id(test)))
    if hit is not None and hit[0] is test:
        return hit[1]
    t = U(ast.Compare(left=test.left, ops=[pos], comparators=test.comparators))
    UCACHE[("pos", id(test))] = (test, t)
    return t


def _is_none_key(left):
    """Atom text of ``<left> is None`` (parenthesised where the operand needs it)."""
    if UCACHE is not None:
        hit = UCACHE.get(("none", id(left)))
        if hit is not None and hit[0] is left:
            return hit[1]
    t = U(ast.Compare(left=left, ops=[ast.Is()], comparators=[ast.Constant(None)]))
    if UCACHE is not None:
        UCACHE[("none", id(left))] = (left, t)
    return t


def bool_eval(test, atoms):
    """Truth value of a condition given truth values for its atoms.  Atoms are keyed by text; ``X is None`` and
    ``X is not None`` share the atom ``"X is None"``.  Returns None when an atom is missing."""
    if isinstance(test, ast.BoolOp):
        vals = [bool_eval(v, atoms) for v in test.values]
        if any(v is None for v in vals):
            return None
        return all(vals) if isinstance(test.op, ast.And) else any(vals)
    if isinstance(test, ast.UnaryOp) and isinstance(test.op, ast.Not):
        v = bool_eval(test.operand, atoms)
        return None if v is None else (not v)
    if isinstance(test, ast.Compare) and len(test.ops) == 1 and isinstance(test.comparators[0], ast.Constant) and test.comparators[0].value is None \
            and isinstance(test.ops[0], (ast.Is, ast.IsNot)):
        k = _is_none_key(test.left)
        if k not in atoms:
            return None
        return atoms[k] if isinstance(test.ops[0], ast.Is) else (not atoms[k])
    if isinstance(test, ast.Compare) and len(test.ops) == 1 and isinstance(test.ops[0], (ast.NotIn, ast.NotEq, ast.IsNot)):
        pos = {ast.NotIn: ast.In, ast.NotEq: ast.Eq, ast.IsNot: ast.Is}[type(test.ops[0])]()
        v = atoms.get(_pos_key(test, pos))
        return None if v is None else (not v)
    if isinstance(test, ast.IfExp):
        t = bool_eval(test.test, atoms)
        if t is None:
            return None
        return bool_eval(test.body if t else test.orelse, atoms)
    if isinstance(test, ast.Constant) and isinstance(test.value, bool):
        return test.value
    k = _u(test)
    return atoms.get(k)


def bool_equiv(a, b, limit: int = 8):
    """Propositional equivalence of two conditions over their textual atoms (True/False), None if too many atoms."""
    import itertools

    atoms = sorted(bool_atoms(a) | bool_atoms(b))
    if len(atoms) > limit:
        return None
    for vals in itertools.product([False, True], repeat=len(atoms)):
        asg = dict(zip(atoms, vals))
        if bool_eval(a, asg) != bool_eval(b, asg):
            return False
    return True


def bool_atoms(test):
    out = set()
    if isinstance(test, ast.IfExp):
        return bool_atoms(test.test) | bool_atoms(test.body) | bool_atoms(test.orelse)
    if isinstance(test, ast.Constant) and isinstance(test.value, bool):
        return out
    if isinstance(test, ast.BoolOp):
        for v in test.values:
            out |= bool_atoms(v)
    elif isinstance(test, ast.UnaryOp) and isinstance(test.op, ast.Not):
        out |= bool_atoms(test.operand)
    elif isinstance(test, ast.Compare) and len(test.ops) == 1 and isinstance(test.comparators[0], ast.Constant) and test.comparators[0].value is None \
            and isinstance(test.ops[0], (ast.Is, ast.IsNot)):
        out.add(_is_none_key(test.left))
    elif isinstance(test, ast.Compare) and len(test.ops) == 1 and isinstance(test.ops[0], (ast.NotIn, ast.NotEq, ast.IsNot)):
        pos = {ast.NotIn: ast.In, ast.NotEq: ast.Eq, ast.IsNot: ast.Is}[type(test.ops[0])]()
        out.add(_pos_key(test, pos))
    else:
        out.add(_u(test))
    return out


def resolve_single(func, expr, attrs=False, rounds: int = 5):
    """``expr`` with every local name that is assigned exactly once in ``func`` (by a plain assignment) replaced by the
    assigned expression, transitively.  With ``attrs`` also ``self.<field>`` values stored exactly once by ``func``.
    (The caller is responsible for the assignment dominating the use; meant for straight-line helper code.)"""
    counts, single = {}, {}
    for n in ast.walk(func):
        if isinstance(n, ast.Name) and isinstance(n.ctx, (ast.Store, ast.Del)):
            counts[n.id] = counts.get(n.id, 0) + 1
    for a in func.args.args + func.args.kwonlyargs:
        counts[a.arg] = counts.get(a.arg, 0) + 1
    attr_counts = {}
    for n in ast.walk(func):
        if isinstance(n, ast.Assign) and len(n.targets) == 1:
            t = n.targets[0]
            if isinstance(t, ast.Name) and counts.get(t.id) == 1:
                single[t.id] = _strip(n.value)
            elif attrs and isinstance(t, ast.Attribute) and _attr_key(t):
                attr_counts[_attr_key(t)] = attr_counts.get(_attr_key(t), 0) + 1
                single[_attr_key(t)] = _strip(n.value)
    for k, c in attr_counts.items():
        if c != 1:
            single.pop(k, None)
    cur = _strip(expr)
    for _ in range(rounds):
        nxt = _Sub(single).visit(copy.deepcopy(cur))
        if ast.dump(nxt) == ast.dump(cur):
            break
        cur = nxt
    return cur


_depth = [0]


def list_builder(func, name):
    """Symbolic content of the list ``name`` as built by the top-level statements of ``func``: a list of segments
    ``("item", text)``, ``("if", cond_text, segments)`` and ``("each", elt_text, iter_text)`` (the loop variable is
    written ``_``) — whether it is built by a literal, ``+``/``+=``, a comprehension, ``append``/``extend`` or loops.
    None when some statement touching the list is not understood."""

    def rename(expr, var):
        class R(ast.NodeTransformer):
            def visit_Name(self, node):
                return ast.copy_location(ast.Name(id="_", ctx=node.ctx), node) if node.id == var else node
        return U(R().visit(copy.deepcopy(_strip(expr))))

    def seq(e):
        if isinstance(e, (ast.List, ast.Tuple)):
            out = []
            for x in e.elts:
                if isinstance(x, ast.Starred):
                    v = seq(x.value)
                    if v is None:
                        return None
                    out += v
                else:
                    out.append(("item", U(x)))
            return out
        if isinstance(e, ast.Name) and e.id != name and _depth[0] < 3:
            # another local list built earlier in the same function
            _depth[0] += 1
            try:
                return list_builder(func, e.id)
            finally:
                _depth[0] -= 1
        if isinstance(e, ast.BinOp) and isinstance(e.op, ast.Add):
            a, b = seq(e.left), seq(e.right)
            return None if a is None or b is None else a + b
        if isinstance(e, ast.IfExp):
            a, b = seq(e.body), seq(e.orelse)
            if a is None or b is None:
                return None
            out = []
            if a:
                out.append(("if", U(e.test), a))
            if b:
                out.append(("if", U(ast.UnaryOp(op=ast.Not(), operand=e.test)), b))
            return out
        if isinstance(e, (ast.ListComp, ast.GeneratorExp)) and len(e.generators) == 1 and isinstance(e.generators[0].target, ast.Name):
            g = e.generators[0]
            inner = [("each", rename(e.elt, g.target.id), U(g.iter))]
            for c in g.ifs:
                return None
            return inner
        if isinstance(e, ast.Call) and call_name(e) == "list" and len(e.args) == 1:
            return seq(e.args[0])
        return None

    def touches(st):
        return any(isinstance(n, ast.Name) and n.id == name for n in ast.walk(st))

    def block(stmts, items):
        for st in stmts:
            if not touches(st):
                continue
            if isinstance(st, ast.Assign) and len(st.targets) == 1 and U(st.targets[0]) == name:
                v = seq(st.value)
                if v is None:
                    return None
                items[:] = v
            elif isinstance(st, ast.AugAssign) and U(st.target) == name and isinstance(st.op, ast.Add):
                v = seq(st.value)
                if v is None:
                    return None
                items += v
            elif isinstance(st, ast.Expr) and isinstance(st.value, ast.Call) and last_attr_(st.value.func) in ("append", "extend") and U(st.value.func.value) == name \
                    and len(st.value.args) == 1:
                if last_attr_(st.value.func) == "append":
                    items.append(("item", U(st.value.args[0])))
                else:
                    v = seq(st.value.args[0])
                    if v is None:
                        return None
                    items += v
            elif isinstance(st, ast.If):
                a, b = [], []
                if block(st.body, a) is None or block(st.orelse, b) is None:
                    return None
                if a:
                    items.append(("if", U(st.test), a))
                if b:
                    items.append(("if", U(ast.UnaryOp(op=ast.Not(), operand=st.test)), b))
            elif isinstance(st, ast.For) and isinstance(st.target, ast.Name) and not st.orelse:
                a = []
                if block(st.body, a) is None or any(isinstance(n, (ast.Continue, ast.Break)) for n in ast.walk(st)):
                    return None
                for kind, *rest in a:
                    if kind != "item":
                        return None
                    items.append(("each", rename(ast.parse(rest[0], mode="eval").body, st.target.id), U(st.iter)))
            elif isinstance(st, (ast.For, ast.While, ast.With, ast.Try)) and not any(
                    isinstance(n, ast.Name) and n.id == name and isinstance(n.ctx, ast.Store) for n in ast.walk(st)) and not any(
                    isinstance(c, ast.Call) and isinstance(c.func, ast.Attribute) and U(c.func.value) == name and c.func.attr in ("append", "extend", "insert", "pop", "remove", "clear", "sort", "reverse")
                    for c in ast.walk(st)):
                continue  # only reads the list
            elif isinstance(st, (ast.Return, ast.Expr, ast.Assign)):
                # a read of the list (or something we do not model): reads are fine, anything else is not
                if any(isinstance(n, ast.Name) and n.id == name and isinstance(n.ctx, (ast.Store, ast.Del)) for n in ast.walk(st)):
                    return None
                if any(isinstance(c, ast.Call) and isinstance(c.func, ast.Attribute) and U(c.func.value) == name and c.func.attr in ("insert", "pop", "remove", "clear", "sort", "reverse")
                       for c in ast.walk(st)):
                    return None
            else:
                return None
        return items

    out = []
    return block(func.body, out)


def last_attr_(f):
    return f.attr if isinstance(f, ast.Attribute) else (f.id if isinstance(f, ast.Name) else "")

"""Small source-level symbolic helpers shared by the property modules.

* ``Straight``: forward substitution of local names through the *top-level* statements of a function, so that a rule
  can ask "what expression, over the parameters, is ``x`` at this statement?" whatever temporaries the code uses.
  Assignments to plain names, augmented assignments, and ``if``/``else`` whose arms only assign names (turned into
  conditional expressions) are followed; a name assigned inside a loop, ``with`` or ``try`` is killed (opaque).
* ``loop_domain``: the index range a ``for``/``while`` loop runs over, for the loop spellings used for counting loops.
* ``body_paths``: the acyclic paths through a loop body (``if``/``else``, ``continue``, ``break``), each with the branch
  outcomes taken and the simple statements executed in order.
* ``lin_opaque``: linear form of an expression in which non-linear sub-expressions are atoms.

Nothing is executed: everything is a rewrite of ``ast`` nodes.
"""

from __future__ import annotations

import ast
import copy

from .core import U, call_name, try_const
from .linear import Lin, lin


# --------------------------------------------------------------------------- substitution


class _Sub(ast.NodeTransformer):
    def __init__(self, env):
        self.env = env

    def visit_Name(self, node):
        if isinstance(node.ctx, ast.Load) and node.id in self.env and self.env[node.id] is not None:
            return copy.deepcopy(self.env[node.id])
        return node

    # do not substitute inside comprehension targets / lambdas (their own scope)
    def visit_Lambda(self, node):
        return node


def subst(expr, env):
    """Copy of ``expr`` with the names of ``env`` replaced by their expressions."""
    return _Sub(env).visit(copy.deepcopy(_strip(expr)))


def _strip(node):
    """deepcopy-safe view: drop the parent back-links the Repo index adds."""
    if not any(hasattr(n, "_parent") for n in ast.walk(node)):
        return node
    src = ast.unparse(node)
    new = ast.parse(src, mode="eval").body if isinstance(node, ast.expr) else ast.parse(src).body[0]
    for n in ast.walk(new):
        if hasattr(node, "lineno") and not hasattr(n, "lineno"):
            n.lineno = node.lineno
            n.col_offset = 0
    return new


def _assigned_names(stmts):
    out = set()
    for s in stmts:
        for n in ast.walk(s):
            if isinstance(n, ast.Name) and isinstance(n.ctx, (ast.Store, ast.Del)):
                out.add(n.id)
    return out


class Straight:
    """Forward substitution through the top-level statements of ``func``."""

    OPAQUE = None

    def __init__(self, func, depth_limit: int = 4000):
        self.func = func
        self.limit = depth_limit
        self.snap = {}  # id(stmt) -> env before the statement
        self.final = {}
        env = {}
        self._block(func.body, env)
        self.final = env

    def _size_ok(self, e):
        return sum(1 for _ in ast.walk(e)) <= self.limit

    def _kill_dependents(self, env, name):
        for k, v in list(env.items()):
            if v is not None and k != name and any(isinstance(n, ast.Name) and n.id == name for n in ast.walk(v)):
                # the stored expression mentions a name whose value is about to change: it was already substituted at
                # assignment time, so only *unsubstituted* (opaque) names can appear here; the expression stays valid
                # only if that name is not reassigned -> freeze it under a versioned opaque atom
                env[k] = None

    def _assign(self, env, name, value_expr):
        new = subst(value_expr, env) if value_expr is not None else None
        if new is not None and not self._size_ok(new):
            new = None
        self._kill_dependents(env, name)
        env[name] = new

    def _block(self, stmts, env):
        for st in stmts:
            self.snap[id(st)] = dict(env)
            if isinstance(st, ast.Assign) and len(st.targets) == 1 and isinstance(st.targets[0], ast.Name):
                self._assign(env, st.targets[0].id, st.value)
            elif isinstance(st, ast.AnnAssign) and isinstance(st.target, ast.Name) and st.value is not None:
                self._assign(env, st.target.id, st.value)
            elif isinstance(st, ast.AugAssign) and isinstance(st.target, ast.Name):
                cur = ast.Name(id=st.target.id, ctx=ast.Load())
                self._assign(env, st.target.id, ast.BinOp(left=cur, op=st.op, right=st.value))
            elif isinstance(st, ast.If) and self._only_name_assigns(st):
                e1, e2 = dict(env), dict(env)
                self._block(st.body, e1)
                self._block(st.orelse, e2)
                test = subst(st.test, env)
                for name in _assigned_names(st.body) | _assigned_names(st.orelse):
                    a = e1.get(name, ast.Name(id=name, ctx=ast.Load()))
                    b = e2.get(name, ast.Name(id=name, ctx=ast.Load()))
                    if a is None or b is None:
                        self._kill_dependents(env, name)
                        env[name] = None
                    else:
                        new = ast.IfExp(test=copy.deepcopy(test), body=a, orelse=b)
                        self._kill_dependents(env, name)
                        env[name] = new if self._size_ok(new) else None
            else:
                # anything else: names stored anywhere inside are opaque afterwards
                for st2 in ast.walk(st):
                    self.snap.setdefault(id(st2), dict(env)) if isinstance(st2, ast.stmt) else None
                for name in _assigned_names([st]):
                    self._kill_dependents(env, name)
                    env[name] = None

    @staticmethod
    def _only_name_assigns(st):
        for blk in (st.body, st.orelse):
            for s in blk:
                if isinstance(s, ast.Pass):
                    continue
                if isinstance(s, ast.Assign) and len(s.targets) == 1 and isinstance(s.targets[0], ast.Name):
                    continue
                if isinstance(s, ast.AugAssign) and isinstance(s.target, ast.Name):
                    continue
                return False
        return True

    def at(self, stmt, expr):
        """``expr`` as it evaluates just before ``stmt`` runs, over names that are not locally defined."""
        env = self.snap.get(id(stmt))
        if env is None:
            p = getattr(stmt, "_parent", None)
            while p is not None and id(p) not in self.snap:
                p = getattr(p, "_parent", None)
            env = self.snap.get(id(p), {}) if p is not None else {}
        return subst(expr, env)

    def at_end(self, expr):
        return subst(expr, self.final)


# --------------------------------------------------------------------------- linear forms with opaque atoms


def lin_opaque(node, env=None) -> Lin:
    """Like ``linear.lin`` but never fails: a sub-expression that is not linear becomes an atom named by its text."""
    env = env or {}
    direct = lin(node, env)
    if direct is not None:
        return direct
    if isinstance(node, ast.UnaryOp) and isinstance(node.op, ast.USub):
        return lin_opaque(node.operand, env).scale(-1)
    if isinstance(node, ast.BinOp) and isinstance(node.op, (ast.Add, ast.Sub)):
        a, b = lin_opaque(node.left, env), lin_opaque(node.right, env)
        return a + b if isinstance(node.op, ast.Add) else a - b
    if isinstance(node, ast.BinOp) and isinstance(node.op, ast.Mult):
        ca, cb = try_const(node.left, env), try_const(node.right, env)
        if isinstance(ca, int) and not isinstance(ca, bool):
            return lin_opaque(node.right, env).scale(ca)
        if isinstance(cb, int) and not isinstance(cb, bool):
            return lin_opaque(node.left, env).scale(cb)
    return Lin(0, {f"<{U(node)}>": 1})


# --------------------------------------------------------------------------- loops


def _unwrap_alias(func, e):
    """Follow ``x = <expr>`` single assignments of a plain local (at most 3 hops)."""
    hops = 0
    while isinstance(e, ast.Name) and hops < 3:
        defs = [n for n in ast.walk(func) if isinstance(n, (ast.Assign, ast.AnnAssign))
                and ((isinstance(n, ast.Assign) and len(n.targets) == 1 and isinstance(n.targets[0], ast.Name) and n.targets[0].id == e.id)
                     or (isinstance(n, ast.AnnAssign) and isinstance(n.target, ast.Name) and n.target.id == e.id and n.value is not None))]
        others = [n for n in ast.walk(func) if isinstance(n, ast.Name) and n.id == e.id and isinstance(n.ctx, ast.Store)]
        if len(defs) != 1 or len(others) != 1:
            break
        e = defs[0].value
        hops += 1
    return e


def loop_domain(loop, func, env=None):
    """Index domain of a counting loop.

    Returns a dict: ``var`` (index name or None), ``lo``/``hi`` (Lin, hi exclusive) , ``step`` (+1/-1), ``elem``
    (name bound to the element or None), ``seq`` (expression iterated when the loop walks a sequence) — or None when
    the loop is not one of the recognised counting spellings:

    ``for i in range(n)`` / ``range(a, b)`` / ``range(a, b, ±1)`` / ``reversed(range(..))``;
    ``for i, x in enumerate(S)`` (domain 0..len(S)); ``for x in S`` (domain 0..len(S), no index name);
    ``while i < N`` / ``i <= N`` with ``i = <k>`` before the loop, a single ``i += 1`` as the last statement of the body
    and no ``continue`` in the body.
    """
    env = env or {}
    if isinstance(loop, ast.For):
        it = loop.iter
        rev = False
        if isinstance(it, ast.Call) and call_name(it) == "reversed" and len(it.args) == 1:
            rev, it = True, it.args[0]
        if isinstance(it, ast.Call) and call_name(it) == "range" and isinstance(loop.target, ast.Name) and not it.keywords:
            a = it.args
            step = try_const(a[2], env) if len(a) == 3 else 1
            if step not in (1, -1):
                return None
            lo = lin_opaque(a[0], env) if len(a) >= 2 else Lin(0)
            hi = lin_opaque(a[1] if len(a) >= 2 else a[0], env)
            if step == -1:
                # range(a, b, -1) visits a, a-1, ..., b+1
                lo, hi = hi + Lin(1), lo + Lin(1)
            if rev:
                step = -step
            return {"var": loop.target.id, "lo": lo, "hi": hi, "step": step, "elem": None, "seq": None}
        if isinstance(it, ast.Call) and call_name(it) == "enumerate" and len(it.args) == 1 and not it.keywords \
                and isinstance(loop.target, ast.Tuple) and len(loop.target.elts) == 2 and all(isinstance(e, ast.Name) for e in loop.target.elts):
            seq = _unwrap_alias(func, it.args[0])
            return {"var": loop.target.elts[0].id, "lo": Lin(0), "hi": Lin(0, {f"len({U(seq)})": 1}), "step": -1 if rev else 1,
                    "elem": loop.target.elts[1].id, "seq": seq}
        if isinstance(loop.target, ast.Name) and isinstance(it, (ast.Name, ast.Attribute, ast.Subscript)):
            seq = _unwrap_alias(func, it)
            return {"var": None, "lo": Lin(0), "hi": Lin(0, {f"len({U(seq)})": 1}), "step": -1 if rev else 1, "elem": loop.target.id, "seq": seq}
        return None
    if isinstance(loop, ast.While):
        t = loop.test
        if not (isinstance(t, ast.Compare) and len(t.ops) == 1 and isinstance(t.left, ast.Name) and isinstance(t.ops[0], (ast.Lt, ast.LtE))):
            return None
        var = t.left.id
        hi = lin_opaque(t.comparators[0], env)
        if isinstance(t.ops[0], ast.LtE):
            hi = hi + Lin(1)
        last = loop.body[-1] if loop.body else None
        incs = [n for n in ast.walk(loop) if isinstance(n, (ast.AugAssign, ast.Assign)) and any(
            isinstance(x, ast.Name) and x.id == var and isinstance(x.ctx, ast.Store) for x in ast.walk(n))]
        if not (isinstance(last, ast.AugAssign) and isinstance(last.op, ast.Add) and isinstance(last.target, ast.Name) and last.target.id == var
                and try_const(last.value, env) == 1 and len(incs) == 1):
            return None
        if any(isinstance(n, ast.Continue) for n in ast.walk(loop)):
            return None
        if any(isinstance(x, ast.Name) and isinstance(x.ctx, ast.Store) for c in t.comparators for x in ast.walk(c)):
            return None
        # initial value: the assignment to var that dominates the loop, at the same block level before it
        par = getattr(loop, "_parent", None)
        body = None
        for fld in ("body", "orelse", "finalbody"):
            blk = getattr(par, fld, None)
            if isinstance(blk, list) and any(s is loop for s in blk):
                body = blk
        init = None
        if body is not None:
            for s in body[: [i for i, s in enumerate(body) if s is loop][0]]:
                if isinstance(s, ast.Assign) and len(s.targets) == 1 and isinstance(s.targets[0], ast.Name) and s.targets[0].id == var:
                    init = s.value
                elif any(isinstance(x, ast.Name) and x.id == var and isinstance(x.ctx, ast.Store) for x in ast.walk(s)):
                    init = None
        if init is None:
            return None
        return {"var": var, "lo": lin_opaque(init, env), "hi": hi, "step": 1, "elem": None, "seq": None, "increment": last}
    return None


def body_paths(stmts, limit: int = 256):
    """Acyclic paths through a statement list.  Each path: ``(conds, steps, end)`` where ``conds`` is a list of
    ``(test_node, outcome)``, ``steps`` the simple statements (nested loops/with/try appear as one opaque step) in
    execution order and ``end`` one of ``"fall"``, ``"continue"``, ``"break"``, ``"return"``, ``"raise"``."""
    paths = [([], [], "fall")]
    for st in stmts:
        new = []
        for conds, steps, end in paths:
            if end != "fall":
                new.append((conds, steps, end))
                continue
            if isinstance(st, ast.If):
                for outcome, blk in ((True, st.body), (False, st.orelse)):
                    for c2, s2, e2 in body_paths(blk, limit):
                        new.append((conds + [(st.test, outcome)] + c2, steps + s2, e2))
            elif isinstance(st, ast.Continue):
                new.append((conds, steps, "continue"))
            elif isinstance(st, ast.Break):
                new.append((conds, steps, "break"))
            elif isinstance(st, ast.Return):
                new.append((conds, steps + [st], "return"))
            elif isinstance(st, ast.Raise):
                new.append((conds, steps + [st], "raise"))
            elif isinstance(st, ast.Pass):
                new.append((conds, steps, end))
            else:
                new.append((conds, steps + [st], end))
        if len(new) > limit:
            raise ValueError("too many paths")
        paths = new
    return paths


def none_test(test, name):
    """For ``name is None`` -> True, ``name is not None`` -> False (the outcome of the test when name is None); else None."""
    if isinstance(test, ast.Compare) and len(test.ops) == 1 and isinstance(test.left, ast.Name) and test.left.id == name \
            and isinstance(test.comparators[0], ast.Constant) and test.comparators[0].value is None:
        if isinstance(test.ops[0], ast.Is):
            return True
        if isinstance(test.ops[0], ast.IsNot):
            return False
    if isinstance(test, ast.UnaryOp) and isinstance(test.op, ast.Not):
        inner = none_test(test.operand, name)
        return None if inner is None else (not inner)
    return None

"""Normal form of a function that cuts a byte stream into blocks and emits one framed piece per block.

``normal_form(repo, func, helpers)`` evaluates the function with the function summariser (funsum) and a small algebra of
list-building loops and comprehensions, and returns ``(U, N, F, var)``: the function returns
``b"".join([F for var in chunks(U, N)])`` where ``chunks(U, N)`` are the consecutive N-byte blocks of U in order (only the
last can be shorter, none is empty).  That the blocks cover U exactly once and in order is then true by construction; what is
left to check is N and the shape of F.  Returns None when the function is outside this language (the caller falls back to
its shape recognisers, which name the specific defect).

Recognised producers of ``chunks(U, N)``:

* ``while u: L.append(E(u[:N])); u = u[N:]``
* ``for v in range(0, len(u), N): L.append(E(u[v:v + N]))`` and the same as a comprehension / generator
* a comprehension over another recognised list (composition), ``for b in blocks: L.append(E(b))``
"""

from __future__ import annotations

import ast
import copy

from .core import AnalysisError, U, call_name, try_const
from .funsum import Summarizer
from .symexec import subst

CH = "__chunks__"


def _chunks(u, n):
    return ast.Call(func=ast.Name(id=CH, ctx=ast.Load()), args=[u, n], keywords=[])


def _is_chunks(e):
    return isinstance(e, ast.Call) and isinstance(e.func, ast.Name) and e.func.id == CH


def _names(e):
    return {n.id for n in ast.walk(e) if isinstance(n, ast.Name)}


class _Replace(ast.NodeTransformer):
    def __init__(self, text, new):
        self.text, self.new, self.n = text, new, 0

    def visit(self, node):
        if isinstance(node, ast.expr) and U(node) == self.text:
            self.n += 1
            return copy.deepcopy(self.new)
        return super().visit(node)


def _comp(elt, var, src):
    return ast.ListComp(elt=elt, generators=[ast.comprehension(target=ast.Name(id=var, ctx=ast.Store()), iter=src, ifs=[], is_async=0)])


def _window_to_block(elt, var, stream_txt, n_txt, fresh):
    """``elt`` over the offset ``var``: every use of ``var`` must be the window ``stream[var:var + N]``; returns elt over ``fresh``."""
    r = None
    for spelling in (f"{stream_txt}[{var}:{var} + {n_txt}]", f"{stream_txt}[{var}:{n_txt} + {var}]"):
        rp = _Replace(spelling, ast.Name(id=fresh, ctx=ast.Load()))
        cand = rp.visit(copy.deepcopy(elt))
        if rp.n:
            r = cand
            break
    if r is None or var in _names(r):
        return None
    return r


def _norm_seq(e, fresh_counter, env_consts):
    """Rewrite a list-valued expression towards ``[F for b in chunks(U, N)]``."""
    if isinstance(e, ast.Call) and isinstance(e.func, ast.Name) and e.func.id in ("list", "tuple", "iter") and len(e.args) == 1 and not e.keywords:
        return _norm_seq(e.args[0], fresh_counter, env_consts)
    if isinstance(e, (ast.ListComp, ast.GeneratorExp)) and len(e.generators) == 1 and not e.generators[0].ifs and isinstance(e.generators[0].target, ast.Name):
        g = e.generators[0]
        v = g.target.id
        it = g.iter
        # over offsets
        if isinstance(it, ast.Call) and call_name(it) == "range" and len(it.args) == 3 and try_const(it.args[0], env_consts) == 0 \
                and isinstance(it.args[1], ast.Call) and call_name(it.args[1]) == "len" and len(it.args[1].args) == 1:
            stream = it.args[1].args[0]
            fresh_counter[0] += 1
            fresh = f"__b{fresh_counter[0]}"
            elt = _window_to_block(e.elt, v, U(stream), U(it.args[2]), fresh)
            if elt is None:
                return None
            return _comp(elt, fresh, _chunks(stream, it.args[2]))
        inner = _norm_seq(it, fresh_counter, env_consts)
        if inner is None:
            return None
        if _is_chunks(inner):
            return _comp(e.elt, v, inner)
        if isinstance(inner, ast.ListComp):
            # [E2 for p in [E1 for b in S]]  ->  [E2[p := E1] for b in S]
            ig = inner.generators[0]
            if v in _names(inner.elt) or ig.target.id in (_names(e.elt) - {v}):
                return None
            return _comp(subst(e.elt, {v: inner.elt}), ig.target.id, ig.iter)
        return None
    if _is_chunks(e):
        return e
    if isinstance(e, ast.BinOp) and isinstance(e.op, ast.Add) and isinstance(e.left, ast.List) and not e.left.elts:
        return _norm_seq(e.right, fresh_counter, env_consts)
    return None


def normal_form(repo, func, helpers=None):
    consts = repo.consts
    counter = [0]

    def hook(st, env, sub):
        body_sum = Summarizer(inline=helpers or {}, consts=consts, effect_calls={"*"})
        try:
            # the lists being built keep their names (``payloads.append``), everything else enters with its value
            paths = body_sum.block_paths(st.body, {k: v for k, v in env.items() if not k.startswith("__") and not (isinstance(v, ast.List) and not v.elts)})
        except AnalysisError:
            return None
        if len(paths) != 1 or paths[0].kind != "fall" or paths[0].conds:
            return None
        p = paths[0]
        apps = [(k, v) for k, v, _n in p.effects if k.startswith("call:") and k.endswith(".append")]
        others = [k for k, _v, _n in p.effects if not (k.startswith("call:") and k.endswith(".append"))]
        if len(apps) != 1 or others:
            return None
        lst = apps[0][0][len("call:"):-len(".append")]
        elt = apps[0][1]
        if not lst.isidentifier() or lst not in env:
            return None
        prev = env[lst]
        if not (isinstance(prev, ast.List) and not prev.elts):
            return None
        counter[0] += 1
        fresh = f"__b{counter[0]}"
        if isinstance(st, ast.While) and isinstance(st.test, ast.Name) and st.test.id in env and not st.orelse:
            u = st.test.id
            fin = (p.env or {}).get(u)
            u0 = env[u]
            # the advance: u = u[N:] (over the value on entry to the iteration)
            if not (isinstance(fin, ast.Subscript) and isinstance(fin.slice, ast.Slice) and fin.slice.upper is None and fin.slice.step is None and fin.slice.lower is not None
                    and U(fin.value) == U(u0)):
                return None
            n = fin.slice.lower
            rp = _Replace(f"{U(u0)}[0:{U(n)}]", ast.Name(id=fresh, ctx=ast.Load()))
            elt2 = rp.visit(copy.deepcopy(elt))
            if not rp.n or U(u0) in U(elt2):
                return None
            if not (isinstance(try_const(n, consts), int) and try_const(n, consts) > 0):
                return None
            return {lst: _comp(elt2, fresh, _chunks(u0, n)), u: ast.Constant(b"")}
        if isinstance(st, ast.For) and isinstance(st.target, ast.Name) and not st.orelse:
            v = st.target.id
            it = sub(st.iter)
            seq = _norm_seq(_comp(elt, v, it), counter, consts)
            if seq is None:
                return None
            return {lst: seq}
        return None

    S = Summarizer(inline=helpers or {}, consts=consts, loop_hook=hook)
    try:
        paths = S.summarize(func)
    except AnalysisError:
        return None
    rets = [p for p in paths if p.kind == "return"]
    if len(paths) != 1 or len(rets) != 1 or rets[0].conds:
        return None
    r = rets[0].ret
    if not (isinstance(r, ast.Call) and isinstance(r.func, ast.Attribute) and r.func.attr == "join" and try_const(r.func.value) == b"" and len(r.args) == 1):
        return None
    seq = _norm_seq(r.args[0], counter, consts)
    if not isinstance(seq, ast.ListComp) or not _is_chunks(seq.generators[0].iter):
        return None
    ch = seq.generators[0].iter
    return ch.args[0], ch.args[1], seq.elt, seq.generators[0].target.id

"""Normaliser: eliminates vocabulary that later edits introduced, before any rule looks at the code.

The rules of this package are written against the vocabulary (module-level names, function names, local
names) of the confirmed tree, frozen in ``pinned_names.json``.  A behaviour-preserving clean-up typically adds
vocabulary: a named constant, an extracted helper, a hoisted local.  This pass removes it again:

* **constants**: a module-level name that is not pinned and folds to an int/str/bytes/tuple constant is replaced
  by its value wherever it is read (unless shadowed);
* **helpers**: a call to a function or method that is not pinned and whose body is a single ``return <expr>``
  (expression helper) or a straight-line list of simple statements (statement helper, only where the call is a
  whole statement or the right-hand side of an assignment) is replaced by its body with the parameters
  substituted;
* **aliases**: a local name that is not pinned for its function, is assigned exactly once from a side-effect free
  expression and whose operands are not reassigned afterwards, is replaced by that expression.

Nothing else is rewritten; pinned names are never touched, so on the confirmed tree this pass is the identity.
The transformation is applied to an in-memory copy of the module AST; line numbers of the original nodes are kept.
"""

from __future__ import annotations

import ast
import copy
import json
import os

from .core import U, try_const

_HERE = os.path.dirname(os.path.abspath(__file__))
with open(os.path.join(_HERE, "pinned_names.json"), encoding="utf-8") as _fh:
    PINNED = json.load(_fh)

PURE_CALLS = {
    "len", "int", "float", "str", "bytes", "bytearray", "abs", "min", "max", "round", "sorted", "tuple", "list", "range", "enumerate", "zip", "isinstance",
    "getattr", "hasattr", "bool", "repr", "ord", "chr", "divmod", "sum", "any", "all", "reversed", "set", "dict", "frozenset", "type", "id",
    "unpack", "pack", "calcsize", "lower", "upper", "strip", "lstrip", "rstrip", "split", "join", "replace", "startswith", "endswith", "get", "keys", "values",
    "items", "format", "zfill", "rjust", "ljust", "count", "index", "find", "ceil", "floor", "log2", "log10", "bit_length", "total_seconds", "is_integer",
    "casefold", "isalpha", "isdigit", "isnumeric", "group", "groups", "HasField", "copy",
}


def _pinned_functions(rel):
    return PINNED.get(rel.split("/")[-1], {}).get("functions", {})


def _pinned_module(rel):
    return set(PINNED.get(rel.split("/")[-1], {}).get("module", []))


def _qual(node, parents):
    parts = [node.name]
    p = parents.get(id(node))
    while p is not None:
        if isinstance(p, (ast.FunctionDef, ast.ClassDef)):
            parts.append(p.name)
        p = parents.get(id(p))
    return ".".join(reversed(parts))


def _parents(tree):
    par = {}
    for n in ast.walk(tree):
        for c in ast.iter_child_nodes(n):
            par[id(c)] = n
    return par


def _local_names(func):
    names = set(a.arg for a in func.args.args + func.args.kwonlyargs + func.args.posonlyargs)
    if func.args.vararg:
        names.add(func.args.vararg.arg)
    if func.args.kwarg:
        names.add(func.args.kwarg.arg)
    for x in ast.walk(func):
        if isinstance(x, ast.Name) and isinstance(x.ctx, (ast.Store, ast.Del)):
            names.add(x.id)
    return names


def _body_wo_doc(func):
    body = list(func.body)
    if body and isinstance(body[0], ast.Expr) and isinstance(body[0].value, ast.Constant) and isinstance(body[0].value.value, str):
        body = body[1:]
    return body


class _Subst(ast.NodeTransformer):
    def __init__(self, mapping):
        self.mapping = mapping

    def visit_Name(self, node):
        if isinstance(node.ctx, ast.Load) and node.id in self.mapping:
            new = copy.deepcopy(self.mapping[node.id])
            return ast.copy_location(new, node)
        return node


def _is_simple_arg(e):
    return isinstance(e, (ast.Name, ast.Constant, ast.Attribute)) or (isinstance(e, ast.Subscript) and _is_simple_arg(e.value) and isinstance(e.slice, (ast.Name, ast.Constant)))


_COMPLEMENT = {ast.Is: ast.IsNot, ast.IsNot: ast.Is, ast.Eq: ast.NotEq, ast.NotEq: ast.Eq, ast.In: ast.NotIn, ast.NotIn: ast.In,
               ast.Lt: ast.GtE, ast.GtE: ast.Lt, ast.Gt: ast.LtE, ast.LtE: ast.Gt}


def _negate(test):
    """``not test`` in its plainest spelling (``x is None`` -> ``x is not None``; ``not y`` -> ``y``)."""
    if isinstance(test, ast.UnaryOp) and isinstance(test.op, ast.Not):
        return test.operand
    if isinstance(test, ast.Compare) and len(test.ops) == 1 and type(test.ops[0]) in (ast.Is, ast.IsNot, ast.Eq, ast.NotEq, ast.In, ast.NotIn):
        return ast.copy_location(ast.Compare(left=test.left, ops=[_COMPLEMENT[type(test.ops[0])]()], comparators=test.comparators), test)
    return ast.copy_location(ast.UnaryOp(op=ast.Not(), operand=test), test)


def _bind(helper, call, receiver):
    """param name -> argument AST, or None if the call cannot be bound."""
    a = helper.args
    if a.vararg or a.kwarg or a.posonlyargs:
        return None
    params = [p.arg for p in a.args]
    decos = [U(d) for d in helper.decorator_list]
    mapping = {}
    if params and params[0] in ("self", "cls") and "staticmethod" not in decos:
        if receiver is None:
            return None
        mapping[params[0]] = receiver
        params = params[1:]
    if any(isinstance(x, ast.Starred) for x in call.args) or any(k.arg is None for k in call.keywords):
        return None
    if len(call.args) > len(params):
        return None
    for p, v in zip(params, call.args):
        mapping[p] = v
    for k in call.keywords:
        if k.arg not in params or k.arg in mapping:
            return None
        mapping[k.arg] = k.value
    defaults = dict(zip(params[len(params) - len(a.defaults):], a.defaults)) if a.defaults else {}
    for p in params:
        if p not in mapping:
            if p in defaults:
                mapping[p] = defaults[p]
            else:
                return None
    for ko, d in zip(a.kwonlyargs, a.kw_defaults):
        if ko.arg not in mapping:
            if d is None:
                return None
            mapping[ko.arg] = d
    return mapping


def _uses(body_nodes, name):
    return sum(1 for b in body_nodes for n in ast.walk(b) if isinstance(n, ast.Name) and n.id == name and isinstance(n.ctx, ast.Load))


def _has_return(stmts):
    return any(isinstance(x, ast.Return) for b in stmts for x in ast.walk(b))


def _terminates(stmts):
    if not stmts:
        return False
    last = stmts[-1]
    if isinstance(last, (ast.Return, ast.Raise)):
        return True
    if isinstance(last, ast.If) and last.orelse:
        return _terminates(last.body) and _terminates(last.orelse)
    return False


def _tailify(stmts, result):
    """Rewrite a body whose ``return`` statements are all in tail position of if-chains into a body without
    returns that assigns the value to ``result`` (early returns become if/else nesting).  None if not of that shape."""
    out = []
    for i, st in enumerate(stmts):
        if isinstance(st, ast.Return):
            out.append(ast.Assign(targets=[ast.Name(id=result, ctx=ast.Store())], value=st.value if st.value is not None else ast.Constant(None)))
            return out
        if isinstance(st, ast.If) and _has_return([st]):
            body_t = _tailify(st.body, result)
            if body_t is None:
                return None
            rest = stmts[i + 1:]
            if st.orelse:
                orelse_t = _tailify(st.orelse, result)
                if orelse_t is None:
                    return None
                if _terminates(st.body) and _terminates(st.orelse):
                    out.append(ast.If(test=st.test, body=body_t, orelse=orelse_t))
                    return out
                if _terminates(st.body) and not _has_return(st.orelse):
                    rest_t = _tailify(rest, result)
                    if rest_t is None:
                        return None
                    out.append(ast.If(test=st.test, body=body_t, orelse=list(st.orelse) + rest_t))
                    return out
                if _terminates(st.orelse) and not _has_return(st.body):
                    rest_t = _tailify(rest, result)
                    if rest_t is None:
                        return None
                    out.append(ast.If(test=st.test, body=list(st.body) + rest_t, orelse=orelse_t))
                    return out
                return None
            if not _terminates(st.body):
                return None
            rest_t = _tailify(rest, result)
            if rest_t is None:
                return None
            out.append(ast.If(test=st.test, body=body_t, orelse=rest_t or [ast.Pass()]))
            return out
        if isinstance(st, ast.Try) and _has_return([st]) and i == len(stmts) - 1 and not st.orelse and not st.finalbody:
            # the last statement: returns inside the protected block (and the handlers) become assignments, evaluated
            # under the same protection; control then leaves the try and the function body ends
            body_t = _tailify(st.body, result)
            if body_t is None:
                return None
            handlers = []
            for h in st.handlers:
                hb = h.body
                if _has_return(hb):
                    hb = _tailify(hb, result)
                    if hb is None:
                        return None
                handlers.append(ast.ExceptHandler(type=h.type, name=h.name, body=hb))
            out.append(ast.Try(body=body_t, handlers=handlers, orelse=[], finalbody=[]))
            return out
        if isinstance(st, ast.Try) and _has_return([st]) and not st.orelse and not st.finalbody and not _has_return(st.body) \
                and all(_terminates(h.body) for h in st.handlers):
            # every handler leaves the function: what follows the try runs exactly when the protected block completed,
            # which is what an ``else`` clause says (and like the original position it is outside the protection)
            handlers = []
            for h in st.handlers:
                hb = h.body
                if _has_return(hb):
                    hb = _tailify(hb, result)
                    if hb is None:
                        return None
                handlers.append(ast.ExceptHandler(type=h.type, name=h.name, body=hb))
            rest_t = _tailify(stmts[i + 1:], result)
            if rest_t is None:
                return None
            out.append(ast.Try(body=list(st.body), handlers=handlers, orelse=rest_t, finalbody=[]))
            return out
        if _has_return([st]):
            return None
        out.append(st)
    # fell off the end: implicit None
    out.append(ast.Assign(targets=[ast.Name(id=result, ctx=ast.Store())], value=ast.Constant(None)))
    return out


class Normalizer:
    def __init__(self, rel, tree, const_env, foreign=None):
        self.rel = rel
        self.tree = tree
        self.const_env = const_env  # new constants: name -> value
        self.foreign = foreign or {}
        self.report = {"constants": [], "helpers": [], "aliases": []}
        self.par = _parents(tree)
        self.pinned_funcs = _pinned_functions(rel)
        self.helpers = {}  # (class or None, name) -> FunctionDef for new helpers
        for n in ast.walk(tree):
            if isinstance(n, ast.FunctionDef):
                q = _qual(n, self.par)
                if q not in self.pinned_funcs:
                    p = self.par.get(id(n))
                    owner = p.name if isinstance(p, ast.ClassDef) else None
                    if isinstance(p, (ast.ClassDef, ast.Module)):
                        self.helpers[(owner, n.name)] = n

    # -------------------------------------------------------------- helpers
    def _helper_kind(self, h):
        body = _body_wo_doc(h)
        if any(isinstance(x, (ast.Yield, ast.YieldFrom, ast.Await, ast.FunctionDef, ast.Lambda, ast.Global, ast.Nonlocal)) for b in body for x in ast.walk(b)):
            return None
        if len(body) == 1 and isinstance(body[0], ast.Return) and body[0].value is not None:
            return "expr"
        if self._return_chain(body) is not None:
            return "expr"
        rets = [x for b in body for x in ast.walk(b) if isinstance(x, ast.Return)]
        if all(isinstance(b, (ast.Assign, ast.AugAssign, ast.Expr, ast.Return, ast.If, ast.For, ast.While, ast.Try, ast.With, ast.Raise)) for b in body):
            # a single return as the last statement: the body can stand where the call stood (a raise inside it leaves
            # the caller exactly as it left the helper)
            if not rets or (len(rets) == 1 and rets[0] is body[-1]):
                return "stmt"
        if all(isinstance(b, (ast.Assign, ast.AugAssign, ast.Expr, ast.Return, ast.If, ast.For, ast.While, ast.Raise, ast.Try, ast.With)) for b in body):
            # early returns in tail position of if-chains (a raise ends a path like a return does)
            if _tailify(body, "__probe") is not None:
                return "stmt"
        if all(isinstance(b, (ast.Assign, ast.AugAssign, ast.Expr, ast.Return, ast.If, ast.For, ast.While, ast.Raise)) for b in body):
            # returns inside loops: can only replace a call that is itself returned (``return helper(...)``)
            return "tail"
        return None

    @staticmethod
    def _return_chain(body):
        """``if c1: return e1`` ... ``return en``  ->  the equivalent conditional expression, else None."""
        if len(body) < 2 or not isinstance(body[-1], ast.Return) or body[-1].value is None:
            return None
        parts = []
        for st in body[:-1]:
            if not (isinstance(st, ast.If) and not st.orelse and len(st.body) == 1 and isinstance(st.body[0], ast.Return) and st.body[0].value is not None):
                return None
            parts.append((st.test, st.body[0].value))
        expr = body[-1].value
        for test, val in reversed(parts):
            tv = val.value if isinstance(val, ast.Constant) else None
            if isinstance(val, ast.Constant) and tv is True:
                expr = ast.BoolOp(op=ast.Or(), values=[test, expr])
            elif isinstance(val, ast.Constant) and tv is False:
                expr = ast.BoolOp(op=ast.And(), values=[ast.UnaryOp(op=ast.Not(), operand=test), expr])
            else:
                expr = ast.IfExp(test=test, body=val, orelse=expr)
        return expr

    def _helper_expr(self, h):
        body = _body_wo_doc(h)
        if len(body) == 1 and isinstance(body[0], ast.Return):
            return body[0].value
        return self._return_chain(body)

    def _resolve_helper(self, call, cls_name):
        f = call.func
        if isinstance(f, ast.Name):
            h = self.helpers.get((None, f.id))
            return (h, None) if h is not None else (None, None)
        if isinstance(f, ast.Attribute) and isinstance(f.value, ast.Name):
            if f.value.id in ("self", "cls") and cls_name:
                h = self.helpers.get((cls_name, f.attr))
                if h is not None:
                    return h, f.value
            else:
                h = self.helpers.get((f.value.id, f.attr))
                if h is not None:
                    decos = [U(d) for d in h.decorator_list]
                    if "staticmethod" in decos:
                        return h, None
                    if "classmethod" in decos:
                        return h, f.value
        # a new method of the model class (another module), called as ``<reference>._model.<name>(...)``
        if isinstance(f, ast.Attribute) and f.attr in self.foreign and isinstance(f.value, ast.Attribute) and f.value.attr == "_model" \
                and f.attr not in self._all_pinned_method_names() \
                and all(isinstance(x, (ast.Name, ast.Attribute, ast.Load)) for x in ast.walk(f.value)):
            return self.foreign[f.attr], f.value
        # a new method of the collection class (containers.ItemsList), called as ``<reference>._sheets.<name>(...)`` or
        # ``<reference>._tables.<name>(...)`` (the two attributes document.py binds to an ItemsList)
        if isinstance(f, ast.Attribute) and f.attr in ITEMSLIST_METHODS and isinstance(f.value, ast.Attribute) and f.value.attr in ("_sheets", "_tables") \
                and f.attr not in self._all_pinned_method_names() \
                and all(isinstance(x, (ast.Name, ast.Attribute, ast.Load)) for x in ast.walk(f.value)):
            return ITEMSLIST_METHODS[f.attr], f.value
        # a new method of another class of this module, called on a plain reference (``self._x[k].helper(...)``): bound
        # by its name when that name is defined once in the module and exists nowhere in the pinned vocabulary
        if isinstance(f, ast.Attribute) and not (isinstance(f.value, ast.Name) and f.value.id in ("self", "cls")):
            cands = [(k, h) for k, h in self.helpers.items() if k[1] == f.attr and k[0] is not None]
            if len(cands) == 1 and f.attr not in self._all_pinned_method_names():
                h = cands[0][1]
                decos = [U(d) for d in h.decorator_list]
                recv_ok = all(isinstance(x, (ast.Name, ast.Attribute, ast.Subscript, ast.Constant, ast.Load, ast.Tuple)) for x in ast.walk(f.value))
                if recv_ok and "staticmethod" not in decos and "classmethod" not in decos and "property" not in decos:
                    return h, f.value
        return None, None

    def _all_pinned_method_names(self):
        out = set()
        for mod in PINNED.values():
            for q in mod.get("functions", {}):
                out.add(q.split(".")[-1].split("@")[0])
        return out

    def _inline_expr_calls(self, node, cls_name, depth=0):
        """Replace calls to expression helpers inside ``node`` (in place, bottom-up)."""
        norm = self

        class T(ast.NodeTransformer):
            def visit_Call(self, call):
                self.generic_visit(call)
                h, recv = norm._resolve_helper(call, cls_name)
                if h is None or norm._helper_kind(h) != "expr":
                    return call
                mapping = _bind(h, call, recv)
                if mapping is None:
                    return call
                body = _body_wo_doc(h)
                for p, v in mapping.items():
                    if not _is_simple_arg(v) and _uses(body, p) > 1:
                        return call
                expr = copy.deepcopy(norm._helper_expr(h))
                expr = _Subst(mapping).visit(expr)
                ast.copy_location(expr, call)
                for x in ast.walk(expr):
                    if not hasattr(x, "lineno"):
                        ast.copy_location(x, call)
                norm.report["helpers"].append(f"{h.name} (expression) at line {getattr(call, 'lineno', 0)}")
                if depth < 3:
                    expr = norm._inline_expr_calls(expr, cls_name, depth + 1)
                return expr

        return T().visit(node)

    def _hoist_nested_helper_call(self, s, cls_name, taken):
        """``x = f(helper(a)) - 1``  ->  ``__h = helper(a); x = f(__h) - 1`` when the helper is a statement helper, it is the
        only call of that kind in the statement and everything else in the expression is side-effect free."""
        if isinstance(s, ast.For):
            # the iterable of a for statement is evaluated once, before the loop
            holder = ast.Expr(value=s.iter)
            ast.copy_location(holder, s)
            r = self._hoist_nested_helper_call(holder, cls_name, taken)
            if r is None:
                h0, _ = self._resolve_helper(s.iter, cls_name) if isinstance(s.iter, ast.Call) else (None, None)
                if h0 is not None and self._helper_kind(h0) == "stmt":
                    k = 1
                    while f"__h{k}" in taken:
                        k += 1
                    tmp = f"__h{k}"
                    taken.add(tmp)
                    pre = ast.Assign(targets=[ast.Name(id=tmp, ctx=ast.Store())], value=s.iter)
                    ast.copy_location(pre, s)
                    ast.fix_missing_locations(pre)
                    s.iter = ast.copy_location(ast.Name(id=tmp, ctx=ast.Load()), s.iter)
                    return [pre, s]
                return None
            s.iter = r[-1].value
            return r[:-1] + [s]
        if not isinstance(s, (ast.Assign, ast.Return, ast.Expr, ast.AugAssign)) or s.value is None:
            return None
        whole = isinstance(s.value, ast.Call) and self._resolve_helper(s.value, cls_name)[0] is not None
        cands = []
        for x in ast.walk(s.value):
            if whole and x is s.value:
                continue  # the statement is itself a helper call: only helper calls among its arguments are hoisted
            if isinstance(x, ast.Call):
                h, _ = self._resolve_helper(x, cls_name)
                if h is not None and self._helper_kind(h) == "stmt":
                    cands.append(x)
        if len(cands) != 1:
            return None
        call = cands[0]
        # the call may not sit under a short-circuit or conditional, and whatever the expression evaluates *before* the
        # call must be pure (calls that enclose it are made after it; operands to its right are evaluated after it)
        for x in ast.walk(s.value):
            if isinstance(x, (ast.BoolOp, ast.IfExp, ast.Lambda, ast.ListComp, ast.SetComp, ast.DictComp, ast.GeneratorExp)) and any(y is call for y in ast.walk(x)):
                return None

        def impure(e):
            for x in ast.walk(e):
                if isinstance(x, ast.Call):
                    nm = x.func.attr if isinstance(x.func, ast.Attribute) else getattr(x.func, "id", "")
                    if nm not in PURE_CALLS:
                        return True
                if isinstance(x, (ast.NamedExpr, ast.Await, ast.Yield, ast.YieldFrom)):
                    return True
            return False

        def before(node):
            """False if something impure is evaluated before ``call`` inside ``node`` (which contains ``call``)."""
            if node is call:
                return True
            kids = []
            if isinstance(node, ast.Call):
                kids = [node.func] + list(node.args) + [k.value for k in node.keywords]
            elif isinstance(node, ast.BinOp):
                kids = [node.left, node.right]
            elif isinstance(node, ast.Compare):
                kids = [node.left] + list(node.comparators)
            elif isinstance(node, (ast.Tuple, ast.List, ast.Set)):
                kids = list(node.elts)
            elif isinstance(node, ast.Subscript):
                kids = [node.value, node.slice]
            elif isinstance(node, ast.Attribute):
                kids = [node.value]
            elif isinstance(node, ast.UnaryOp):
                kids = [node.operand]
            elif isinstance(node, ast.JoinedStr):
                kids = list(node.values)
            elif isinstance(node, ast.FormattedValue):
                kids = [node.value]
            elif isinstance(node, ast.Starred):
                kids = [node.value]
            else:
                return False  # a construct whose evaluation order is not modelled
            for k_ in kids:
                if any(y is call for y in ast.walk(k_)):
                    return before(k_)
                if impure(k_):
                    return False
            return False

        if not before(s.value):
            return None
        if isinstance(s, ast.AugAssign) and not isinstance(s.target, ast.Name):
            return None  # the target's sub-expressions are evaluated first
        k = 1
        while f"__h{k}" in taken:
            k += 1
        tmp = f"__h{k}"
        taken.add(tmp)
        pre = ast.Assign(targets=[ast.Name(id=tmp, ctx=ast.Store())], value=call)
        ast.copy_location(pre, s)

        class R(ast.NodeTransformer):
            def visit_Call(self, node):
                if node is call:
                    return ast.copy_location(ast.Name(id=tmp, ctx=ast.Load()), node)
                return self.generic_visit(node)

        s.value = R().visit(s.value)
        ast.fix_missing_locations(pre)
        return [pre, s]

    def _inline_stmt_calls(self, stmts, cls_name, taken, depth=0):
        out = []
        for s in stmts:
            # recurse into compound statements
            for fld in ("body", "orelse", "finalbody"):
                if isinstance(getattr(s, fld, None), list) and not isinstance(s, (ast.FunctionDef, ast.ClassDef)):
                    setattr(s, fld, self._inline_stmt_calls(getattr(s, fld), cls_name, taken, depth))
            for h_ in getattr(s, "handlers", []):
                h_.body = self._inline_stmt_calls(h_.body, cls_name, taken, depth)
            call = None
            target = None
            hoisted = self._hoist_nested_helper_call(s, cls_name, taken)
            if hoisted is not None:
                out.extend(self._inline_stmt_calls(hoisted, cls_name, taken, depth))
                continue
            if isinstance(s, ast.Expr) and isinstance(s.value, ast.Call):
                call = s.value
            elif isinstance(s, ast.Assign) and isinstance(s.value, ast.Call) and len(s.targets) == 1:
                call, target = s.value, s.targets[0]
            elif isinstance(s, ast.Return) and isinstance(s.value, ast.Call):
                call, target = s.value, "return"
            if call is not None:
                h, recv = self._resolve_helper(call, cls_name)
                hk = self._helper_kind(h) if h is not None else None
                if hk == "tail" and target == "return":
                    mapping = _bind(h, call, recv)
                    body = _body_wo_doc(h)
                    if mapping is not None:
                        new = copy.deepcopy(body)
                        locs = {x.id for b in new for x in ast.walk(b) if isinstance(x, ast.Name) and isinstance(x.ctx, ast.Store)}
                        pre = []
                        ren = {}
                        for l in sorted(locs | set(mapping)):
                            if l in taken and l not in ("self", "cls"):
                                k = 1
                                while f"{l}_{k}" in taken:
                                    k += 1
                                ren[l] = f"{l}_{k}"
                        taken |= {ren.get(l, l) for l in locs | set(mapping)}
                        for p_, v_ in mapping.items():
                            if p_ in ("self", "cls") and isinstance(v_, ast.Name) and v_.id == p_:
                                continue
                            pre.append(ast.copy_location(ast.Assign(targets=[ast.Name(id=ren.get(p_, p_), ctx=ast.Store())], value=copy.deepcopy(v_)), s))
                        for b in new:
                            for x in ast.walk(b):
                                if isinstance(x, ast.Name) and x.id in ren:
                                    x.id = ren[x.id]
                        if not _terminates(new):
                            new.append(ast.copy_location(ast.Return(value=ast.Constant(None)), s))
                        for b in pre + new:
                            for x in ast.walk(b):
                                if not hasattr(x, "lineno"):
                                    ast.copy_location(x, s)
                        self.report["helpers"].append(f"{h.name} (returned call) at line {getattr(s, 'lineno', 0)}")
                        out.extend(pre + (self._inline_stmt_calls(new, cls_name, taken, depth + 1) if depth < 3 else new))
                        continue
                if h is not None and hk == "stmt":
                    mapping = _bind(h, call, recv)
                    body = _body_wo_doc(h)
                    ok = mapping is not None and all(_is_simple_arg(v) or _uses(body, p) <= 1 for p, v in mapping.items())
                    # parameters assigned inside the helper are bound to a local of their own first
                    rebinds = []
                    if mapping is not None:
                        assigned = {x.id for b in body for x in ast.walk(b) if isinstance(x, ast.Name) and isinstance(x.ctx, ast.Store)}
                        for p_ in sorted(assigned & set(mapping)):
                            if not (_is_simple_arg(mapping[p_]) or _uses(body, p_) >= 0):
                                ok = False
                        if mapping is not None and not ok:
                            # re-evaluate: only the non-rebound parameters are subject to the single-use rule
                            ok = all(_is_simple_arg(v) or _uses(body, p) <= 1 or p in assigned for p, v in mapping.items())
                        rebinds = sorted(assigned & set(mapping)) if ok else []
                        if not ok:
                            # an argument that is not a plain value and is used several times by the helper is evaluated once,
                            # into the parameter's own name, before the body; so are then all other computed arguments, in
                            # the order of the call (the order of evaluation stays what it was)
                            multi = [p_ for p_, v_ in mapping.items() if not _is_simple_arg(v_) and _uses(body, p_) > 1 and p_ not in assigned]
                            if multi and all(not isinstance(x, (ast.NamedExpr, ast.Yield, ast.YieldFrom, ast.Await)) for v_ in mapping.values() for x in ast.walk(v_)):
                                rebinds = [p_ for p_, v_ in mapping.items() if not _is_simple_arg(v_) or p_ in assigned]
                                ok = True
                    if ok:
                        new = copy.deepcopy(body)
                        # the arguments bound first are the caller's expressions: they take no part in the renaming of the
                        # helper's locals nor in the substitution of its parameters (they are put in front afterwards)
                        pre_specs = [(p_, copy.deepcopy(mapping[p_])) for p_ in rebinds]
                        if rebinds:
                            mapping = {k_: v_ for k_, v_ in mapping.items() if k_ not in rebinds}
                        ret = None
                        n_rets = sum(1 for b in new for x in ast.walk(b) if isinstance(x, ast.Return))
                        if n_rets > 1 or (n_rets == 1 and not isinstance(new[-1], ast.Return)):
                            k = 1
                            while f"__ret{k}" in taken:
                                k += 1
                            rname = f"__ret{k}"
                            taken.add(rname)
                            new = _tailify(new, rname)
                            ret = ast.Name(id=rname, ctx=ast.Load())
                        elif new and isinstance(new[-1], ast.Return):
                            ret = new.pop().value
                        # rename helper locals that clash with the caller's
                        locs = {x.id for b in new for x in ast.walk(b) if isinstance(x, ast.Name) and isinstance(x.ctx, ast.Store)} | {p_ for p_, _v in pre_specs}
                        ren = {}
                        for l in locs:
                            if l in taken:
                                k = 1
                                while f"{l}_{k}" in taken:
                                    k += 1
                                ren[l] = f"{l}_{k}"
                        taken |= {ren.get(l, l) for l in locs}
                        for b in new:
                            for x in ast.walk(b):
                                if isinstance(x, ast.Name) and x.id in ren:
                                    x.id = ren[x.id]
                        if ret is not None:
                            for x in ast.walk(ret):
                                if isinstance(x, ast.Name) and x.id in ren:
                                    x.id = ren[x.id]
                        new = [_Subst(mapping).visit(b) for b in new]
                        if ret is not None:
                            ret = _Subst(mapping).visit(ret)
                        pre_stmts = [ast.copy_location(ast.Assign(targets=[ast.Name(id=ren.get(p_, p_), ctx=ast.Store())], value=v_), s) for p_, v_ in pre_specs]
                        for b in new:
                            for x in ast.walk(b):
                                ast.copy_location(x, s) if not hasattr(x, "lineno") else None
                        tail = None
                        # ``a, b = helper(...)`` where the helper returns its own locals ``(x, y)``: the locals take the
                        # caller's names and the hand-over assignment disappears (the caller's names are not mentioned
                        # by the arguments, and nothing of the caller runs between the helper's statements)
                        coalesced = False
                        if target not in (None, "return") and ret is not None:
                            t_elts = target.elts if isinstance(target, ast.Tuple) else [target]
                            r_elts = ret.elts if isinstance(ret, ast.Tuple) and isinstance(target, ast.Tuple) else [ret]
                            helper_locals = {ren.get(l, l) for l in locs}
                            arg_names = {x.id for v_ in mapping.values() for x in ast.walk(v_) if isinstance(x, ast.Name)}
                            if len(t_elts) == len(r_elts) and all(isinstance(x, ast.Name) for x in t_elts + r_elts):
                                tn, rn = [x.id for x in t_elts], [x.id for x in r_elts]
                                used_in_new = {x.id for b in new for x in ast.walk(b) if isinstance(x, ast.Name)}
                                m2 = dict(zip(rn, tn))
                                # the arguments bound first read the caller's variables: one that reads a caller's name after an
                                # earlier binding has taken that name over would read the wrong value
                                pre_ok, overwritten = True, set()
                                for a_ in pre_stmts:
                                    if {x.id for x in ast.walk(a_.value) if isinstance(x, ast.Name)} & overwritten:
                                        pre_ok = False
                                    overwritten.add(m2.get(a_.targets[0].id, a_.targets[0].id))
                                if len(set(tn)) == len(tn) and len(set(rn)) == len(rn) and set(rn) <= helper_locals and not (set(tn) & arg_names) \
                                        and not ((set(tn) - set(rn)) & used_in_new) and pre_ok:
                                    for b in new:
                                        for x in ast.walk(b):
                                            if isinstance(x, ast.Name) and x.id in m2:
                                                x.id = m2[x.id]
                                    for a_ in pre_stmts:
                                        if a_.targets[0].id in m2:
                                            a_.targets[0].id = m2[a_.targets[0].id]
                                    coalesced = True
                        if coalesced:
                            pass
                        elif target == "return":
                            tail = ast.Return(value=ret if ret is not None else ast.Constant(None))
                        elif target is not None:
                            tail = ast.Assign(targets=[target], value=ret if ret is not None else ast.Constant(None))
                        elif ret is not None:
                            tail = ast.Expr(value=ret)
                        if tail is not None:
                            ast.copy_location(tail, s)
                            for x in ast.walk(tail):
                                if not hasattr(x, "lineno"):
                                    ast.copy_location(x, s)
                            new.append(tail)
                        self.report["helpers"].append(f"{h.name} (statements) at line {getattr(s, 'lineno', 0)}")
                        for a_ in pre_stmts:
                            for x in ast.walk(a_):
                                if not hasattr(x, "lineno"):
                                    ast.copy_location(x, s)
                        new = pre_stmts + new
                        if depth < 3:
                            new = self._inline_stmt_calls(new, cls_name, taken, depth + 1)
                        out.extend(new)
                        continue
            out.append(s)
        return out

    # -------------------------------------------------------------- constants
    def _fold_constants(self, func):
        env = self.const_env
        if not env:
            return
        local = _local_names(func)
        norm = self

        class T(ast.NodeTransformer):
            def visit_Name(self, node):
                if isinstance(node.ctx, ast.Load) and node.id in env and node.id not in local:
                    norm.report["constants"].append(node.id)
                    return ast.copy_location(ast.Constant(env[node.id]), node)
                return node

            def visit_Attribute(self, node):
                self.generic_visit(node)
                d = U(node)
                if isinstance(node.ctx, ast.Load) and d in env:
                    return ast.copy_location(ast.Constant(env[d]), node)
                return node

        for i, b in enumerate(func.body):
            func.body[i] = T().visit(b)
        class T2(ast.NodeTransformer):
            """what the substitution of a constant leaves foldable: ``"Sheet".lower()``, a literal inside an f-string"""

            def visit_Call(self, node):
                self.generic_visit(node)
                f_ = node.func
                if isinstance(f_, ast.Attribute) and isinstance(f_.value, ast.Constant) and isinstance(f_.value.value, str) and not node.args and not node.keywords \
                        and f_.attr in ("lower", "upper", "casefold", "strip", "title", "capitalize"):
                    return ast.copy_location(ast.Constant(getattr(f_.value.value, f_.attr)()), node)
                return node

            def visit_JoinedStr(self, node):
                self.generic_visit(node)
                vals = []
                for v in node.values:
                    if isinstance(v, ast.FormattedValue) and v.conversion == -1 and v.format_spec is None and isinstance(v.value, ast.Constant) \
                            and isinstance(v.value.value, (str, int)) and not isinstance(v.value.value, bool):
                        v = ast.Constant(str(v.value.value))
                    if isinstance(v, ast.Constant) and vals and isinstance(vals[-1], ast.Constant):
                        vals[-1] = ast.Constant(vals[-1].value + v.value)
                    else:
                        vals.append(v)
                if len(vals) == 1 and isinstance(vals[0], ast.Constant):
                    return ast.copy_location(vals[0], node)
                node.values = vals
                return node

        if norm.report["constants"]:
            for i, b in enumerate(func.body):
                func.body[i] = ast.fix_missing_locations(T2().visit(b))
        # defaults are evaluated in the enclosing scope: the function's own locals do not shadow them
        local = set()
        func.args.defaults = [T().visit(d) for d in func.args.defaults]
        func.args.kw_defaults = [T().visit(d) if d is not None else None for d in func.args.kw_defaults]

    # -------------------------------------------------------------- aliases
    def _pure(self, e):
        for n in ast.walk(e):
            if isinstance(n, ast.Call):
                nm = n.func.attr if isinstance(n.func, ast.Attribute) else getattr(n.func, "id", "")
                if nm not in PURE_CALLS:
                    return False
            if isinstance(n, (ast.NamedExpr, ast.Yield, ast.YieldFrom, ast.Await, ast.Lambda, ast.ListComp, ast.DictComp, ast.SetComp, ast.GeneratorExp)):
                return False
        return True

    def _propagate_aliases(self, func, pinned_locals):
        if not (_local_names(func) - pinned_locals):
            return  # no new local vocabulary: identity
        changed = True
        rounds = 0
        while changed and rounds < 60:
            changed = False
            rounds += 1
            stores = {}
            for n in ast.walk(func):
                if isinstance(n, ast.Name) and isinstance(n.ctx, (ast.Store, ast.Del)):
                    stores[n.id] = stores.get(n.id, 0) + 1
                if isinstance(n, ast.arg):
                    stores[n.arg] = stores.get(n.arg, 0) + 1
            par = _parents(func)
            for st in [n for n in ast.walk(func) if isinstance(n, ast.Assign)]:
                if len(st.targets) != 1 or not isinstance(st.targets[0], ast.Name):
                    continue
                name = st.targets[0].id
                if name in pinned_locals or stores.get(name, 0) != 1:
                    continue
                rhs = st.value
                if not self._pure(rhs) or isinstance(rhs, (ast.List, ast.Dict, ast.Set)):
                    continue
                # a value that builds a fresh mutable object is an object, not an alias of an expression
                if any(isinstance(x, (ast.List, ast.Dict, ast.Set, ast.ListComp, ast.DictComp, ast.SetComp, ast.GeneratorExp)) for x in ast.walk(rhs)) or any(
                        isinstance(x, ast.Call) and isinstance(x.func, ast.Name) and x.func.id in ("list", "dict", "set", "bytearray", "defaultdict", "sorted", "reversed", "enumerate", "zip", "iter")
                        for x in ast.walk(rhs)):
                    continue
                # ... and a name that is stored through (x[i] = v, x.f = v, x += v) or has methods called on it may be one
                mutated = False
                for x in ast.walk(func):
                    if isinstance(x, (ast.Subscript, ast.Attribute)) and isinstance(x.ctx, (ast.Store, ast.Del)) and isinstance(x.value, ast.Name) and x.value.id == name:
                        mutated = True
                    if isinstance(x, ast.AugAssign) and isinstance(x.target, ast.Name) and x.target.id == name:
                        mutated = True
                    if isinstance(x, ast.Call) and isinstance(x.func, ast.Attribute) and isinstance(x.func.value, ast.Name) and x.func.value.id == name \
                            and x.func.attr in ("append", "extend", "insert", "pop", "remove", "clear", "sort", "reverse", "update", "add", "discard", "setdefault", "popitem", "CopyFrom", "MergeFrom"):
                        mutated = True
                # a reference (attribute / subscript chain, or a lookup call) may be stored through: both spellings
                # reach the same object; anything computed (a + b, a conditional, a literal) may be a fresh object
                if mutated and not isinstance(rhs, (ast.Name, ast.Attribute, ast.Subscript, ast.Call)):
                    continue
                # the statement must sit in a plain block
                holder = par.get(id(st))
                blk = None
                for fld in ("body", "orelse", "finalbody"):
                    if isinstance(getattr(holder, fld, None), list) and st in getattr(holder, fld):
                        blk = getattr(holder, fld)
                if blk is None:
                    continue
                # operands must not be rebound or stored through after the definition inside the function
                roots = {n.id for n in ast.walk(rhs) if isinstance(n, ast.Name)}
                if name in roots:
                    continue
                stable = True
                # simple, conservative ordering test: statements textually after the alias and not after its last use
                last_use = max([getattr(u, "lineno", 0) for u in ast.walk(func) if isinstance(u, ast.Name) and u.id == name and isinstance(u.ctx, ast.Load)] + [st.lineno])
                for n in ast.walk(func):
                    if isinstance(n, ast.Name) and isinstance(n.ctx, ast.Store) and n.id in roots and st.lineno < getattr(n, "lineno", 0) <= last_use:
                        # a loop variable re-bound by the enclosing loop header (before the alias in each iteration) is fine
                        stable = False
                if not stable:
                    # allow when every rebinding is the target of a loop that encloses the alias
                    enclosing_targets = set()
                    p = par.get(id(st))
                    while p is not None:
                        if isinstance(p, ast.For):
                            enclosing_targets |= {x.id for x in ast.walk(p.target) if isinstance(x, ast.Name)}
                        p = par.get(id(p))
                    rebinds = {n.id for n in ast.walk(func) if isinstance(n, ast.Name) and isinstance(n.ctx, ast.Store) and n.id in roots and st.lineno < getattr(n, "lineno", 0) <= last_use}
                    if not rebinds <= enclosing_targets:
                        continue
                # what the value reads from the heap (``self._max_id + 1``) must not be stored between the definition and the last use
                heap_reads = {U(x) for x in ast.walk(rhs) if isinstance(x, (ast.Attribute, ast.Subscript))}
                if heap_reads:
                    clobbered = False
                    for x in ast.walk(func):
                        tg_ = []
                        if isinstance(x, ast.Assign):
                            tg_ = [t_ for t0 in x.targets for t_ in ast.walk(t0) if isinstance(t_, (ast.Attribute, ast.Subscript)) and isinstance(t_.ctx, ast.Store)]
                        elif isinstance(x, (ast.AugAssign, ast.AnnAssign)) and isinstance(x.target, (ast.Attribute, ast.Subscript)):
                            tg_ = [x.target]
                        elif isinstance(x, ast.Delete):
                            tg_ = [t_ for t_ in x.targets if isinstance(t_, (ast.Attribute, ast.Subscript))]
                        for t_ in tg_:
                            tt_ = U(t_)
                            if st.lineno <= getattr(x, "lineno", 0) <= last_use and x is not st and any(h_ == tt_ or h_.startswith(tt_ + ".") or h_.startswith(tt_ + "[") or tt_.startswith(h_ + ".") or tt_.startswith(h_ + "[") for h_ in heap_reads):
                                clobbered = True
                    if clobbered:
                        continue
                # all uses must come after the definition (line order) and the alias must not be used as an assignment target base
                uses = [n for n in ast.walk(func) if isinstance(n, ast.Name) and n.id == name and isinstance(n.ctx, ast.Load)]
                if any((getattr(u, "lineno", 0), getattr(u, "col_offset", 0)) < (st.lineno, st.col_offset) for u in uses):
                    continue
                # a value whose own evaluation is consumed several times is only duplicated when cheap and pure (it is)
                mapping = {name: rhs}
                sub = _Subst(mapping)
                idx = blk.index(st)
                del blk[idx]
                if not blk and blk is not getattr(holder, "orelse", None) and blk is not getattr(holder, "finalbody", None):
                    blk.append(ast.copy_location(ast.Pass(), st))
                for i, b in enumerate(func.body):
                    func.body[i] = sub.visit(b)
                # alias used as the base of a store/delete target: ``alias[...] = v`` / ``del alias[...]``
                self.report["aliases"].append(f"{func.name}.{name}")
                changed = True
                break

    _REF_TREES = {}

    def _reference_func(self, func):
        """The function of the same qualified name in the reference snapshot, or None."""
        rel = self.rel.split("/")[-1]
        if rel not in Normalizer._REF_TREES:
            path = os.path.join(_HERE, "reference", "src", "numbers_parser", rel + ".txt")
            try:
                with open(path, encoding="utf-8") as fh:
                    Normalizer._REF_TREES[rel] = ast.parse(fh.read())
            except OSError:
                Normalizer._REF_TREES[rel] = None
        t = Normalizer._REF_TREES[rel]
        if t is None:
            return None
        if rel not in Normalizer._REF_FUNCS:
            par = _parents(t)
            Normalizer._REF_FUNCS[rel] = {_qual(n, par): n for n in ast.walk(t) if isinstance(n, ast.FunctionDef)}
        return Normalizer._REF_FUNCS[rel].get(_qual(func, self.par))

    _REF_FUNCS = {}

    def _reference_walrus_names(self, func):
        """Names bound by assignment expressions in the reference version of ``func`` (those are vocabulary the rules
        know; only assignment expressions that came later are rewritten)."""
        rel = self.rel.split("/")[-1]
        if rel not in Normalizer._REF_TREES:
            path = os.path.join(_HERE, "reference", "src", "numbers_parser", rel + ".txt")
            try:
                with open(path, encoding="utf-8") as fh:
                    Normalizer._REF_TREES[rel] = ast.parse(fh.read())
            except OSError:
                Normalizer._REF_TREES[rel] = None
        t = Normalizer._REF_TREES[rel]
        if t is None:
            return {n.target.id for n in ast.walk(func) if isinstance(n, ast.NamedExpr) and isinstance(n.target, ast.Name)}  # no reference: touch nothing
        q = _qual(func, self.par)
        par = _parents(t)
        for n in ast.walk(t):
            if isinstance(n, ast.FunctionDef) and n.name == func.name and _qual(n, par) == q:
                return {x.target.id for x in ast.walk(n) if isinstance(x, ast.NamedExpr) and isinstance(x.target, ast.Name)}
        return set()

    # -------------------------------------------------------------- assignment expressions
    def _dewalrus(self, func, pinned_locals):
        """``if (x := E) is not None:`` with a *new* name x  ->  ``x = E`` followed by ``if x is not None:``.  Only where
        the assignment expression is the first thing the test evaluates (the test itself, the left operand of its
        comparison, or that of the first operand of an and/or), so the value is computed at the same moment."""
        ref_walrus = self._reference_walrus_names(func)

        def first(e):
            """The NamedExpr evaluated first and unconditionally by ``e`` together with a setter replacing it, or None."""
            if isinstance(e, ast.NamedExpr):
                return e, None
            if isinstance(e, ast.Compare) and isinstance(e.left, ast.NamedExpr):
                return e.left, (e, "left", None)
            if isinstance(e, ast.UnaryOp) and isinstance(e.op, ast.Not):
                r = first(e.operand)
                if r is not None:
                    return r if r[1] is not None else (r[0], (e, "operand", None))
            if isinstance(e, ast.BoolOp) and e.values:
                r = first(e.values[0])
                if r is not None:
                    return r if r[1] is not None else (r[0], (e, "values", 0))
            return None

        def block(stmts):
            out = []
            for st in stmts:
                for fld in ("body", "orelse", "finalbody"):
                    blk = getattr(st, fld, None)
                    if isinstance(blk, list) and blk and isinstance(blk[0], ast.stmt) and not isinstance(st, (ast.FunctionDef, ast.ClassDef)):
                        setattr(st, fld, block(blk))
                for h in getattr(st, "handlers", []) or []:
                    h.body = block(h.body)
                if isinstance(st, ast.If):
                    r = first(st.test)
                    n_walrus = sum(isinstance(x, ast.NamedExpr) for x in ast.walk(st.test))
                    if r is not None and n_walrus == 1 and isinstance(r[0].target, ast.Name) and r[0].target.id not in ref_walrus:
                        ne, where = r
                        name = ast.Name(id=ne.target.id, ctx=ast.Load())
                        ast.copy_location(name, ne)
                        if where is None:
                            st.test = name
                        else:
                            holder, fld, idx = where
                            if idx is None:
                                setattr(holder, fld, name)
                            else:
                                getattr(holder, fld)[idx] = name
                        pre = ast.Assign(targets=[ast.Name(id=ne.target.id, ctx=ast.Store())], value=ne.value)
                        ast.copy_location(pre, st)
                        ast.copy_location(pre.targets[0], st)
                        self.report["aliases"].append(f"{func.name}.{ne.target.id} (assignment expression)")
                        out.append(pre)
                out.append(st)
            return out

        func.body = block(func.body)

    # -------------------------------------------------------------- table-driven loops
    def _module_literal(self, name):
        """AST of a module-level ``name = <tuple/list display>`` bound exactly once and not pinned, else None."""
        if name in _pinned_module(self.rel):
            return None
        hits = [n for n in self.tree.body if isinstance(n, ast.Assign) and len(n.targets) == 1 and isinstance(n.targets[0], ast.Name) and n.targets[0].id == name]
        stores = sum(1 for n in ast.walk(self.tree) if isinstance(n, ast.Name) and n.id == name and isinstance(n.ctx, (ast.Store, ast.Del)))
        if len(hits) == 1 and stores == 1 and isinstance(hits[0].value, (ast.Tuple, ast.List)):
            return hits[0].value
        return None

    def _unroll_table_loops(self, func, pinned_locals):
        """A *new* loop (its loop variables are not pinned locals of the function) over a literal table -- a tuple/list
        display written in place, or a new module-level constant bound once to one -- is unrolled: one copy of the body
        per row with the row's values substituted for the loop variables, ``getattr(x, "name")`` written ``x.name`` and
        ``setattr(x, "name", v)`` written ``x.name = v``.  Temporaries of the body get one name per copy.  Loops with
        ``break``/``continue``/``else`` or whose variables are read after the loop are left alone."""
        norm = self

        def const_like(e):
            return all(isinstance(x, (ast.Constant, ast.Tuple, ast.List, ast.Attribute, ast.Name, ast.UnaryOp, ast.Load, ast.USub)) for x in ast.walk(e))

        def local_table(name, loop):
            """A new local bound exactly once, by the statement just before the loop, to a tuple/list display."""
            if name in pinned_locals:
                return None
            stores = [n for n in ast.walk(func) if isinstance(n, ast.Name) and n.id == name and isinstance(n.ctx, (ast.Store, ast.Del))]
            if len(stores) != 1:
                return None
            for blk in [func.body] + [getattr(n, f) for n in ast.walk(func) for f in ("body", "orelse", "finalbody") if isinstance(getattr(n, f, None), list)]:
                if loop in blk:
                    i = blk.index(loop)
                    if i > 0 and isinstance(blk[i - 1], ast.Assign) and len(blk[i - 1].targets) == 1 and isinstance(blk[i - 1].targets[0], ast.Name) \
                            and blk[i - 1].targets[0].id == name and isinstance(blk[i - 1].value, (ast.Tuple, ast.List)):
                        return blk[i - 1].value
            return None

        def rows_of(it, loop=None):
            e = it
            if isinstance(e, ast.Name):
                e = norm._module_literal(e.id) or (local_table(e.id, loop) if loop is not None else None)
            if isinstance(e, (ast.Tuple, ast.List)) and 0 < len(e.elts) <= 24 and all(const_like(x) for x in e.elts):
                return list(e.elts)
            return None

        class _Attr(ast.NodeTransformer):
            def visit_Call(self, node):
                self.generic_visit(node)
                if isinstance(node.func, ast.Name) and node.func.id == "getattr" and len(node.args) == 2 and not node.keywords \
                        and isinstance(node.args[1], ast.Constant) and isinstance(node.args[1].value, str) and node.args[1].value.isidentifier():
                    return ast.copy_location(ast.Attribute(value=node.args[0], attr=node.args[1].value, ctx=ast.Load()), node)
                return node

            def visit_Expr(self, node):
                self.generic_visit(node)
                c = node.value
                if isinstance(c, ast.Call) and isinstance(c.func, ast.Name) and c.func.id == "setattr" and len(c.args) == 3 and not c.keywords \
                        and isinstance(c.args[1], ast.Constant) and isinstance(c.args[1].value, str) and c.args[1].value.isidentifier():
                    return ast.copy_location(ast.Assign(targets=[ast.Attribute(value=c.args[0], attr=c.args[1].value, ctx=ast.Store())], value=c.args[2]), node)
                return node

        counter = [0]
        ref_f = self._reference_func(func)
        ref_loops = None if ref_f is None else {frozenset(n.id for n in ast.walk(lp.target) if isinstance(n, ast.Name)) for lp in ast.walk(ref_f) if isinstance(lp, ast.For)}
        if ref_loops is None:
            ref_loops_known = False
        else:
            ref_loops_known = True

        def decontinue(body):
            """Body with leading-guard ``continue``s rewritten as conditionals; None if a ``continue`` sits elsewhere."""
            out_ = []
            for i, b in enumerate(body):
                if isinstance(b, ast.If) and not b.orelse and len(b.body) == 1 and isinstance(b.body[0], ast.Continue):
                    rest = decontinue(body[i + 1:])
                    if rest is None:
                        return None
                    if rest:
                        neg = _negate(b.test)
                        out_.append(ast.copy_location(ast.If(test=neg, body=rest, orelse=[]), b))
                    return out_
                if any(isinstance(n, ast.Continue) for n in ast.walk(b)):
                    return None
                out_.append(b)
            return out_

        def fold_const_ifs(stmts):
            """``if <constant>:`` left behind by the substitution of a row's values is resolved."""
            res = []
            for b in stmts:
                for fld in ("body", "orelse"):
                    blk = getattr(b, fld, None)
                    if isinstance(blk, list) and blk and isinstance(blk[0], ast.stmt) and not isinstance(b, (ast.FunctionDef, ast.ClassDef)):
                        setattr(b, fld, fold_const_ifs(blk))
                if isinstance(b, ast.If) and isinstance(b.test, ast.Constant):
                    res.extend(b.body if b.test.value else b.orelse)
                elif isinstance(b, ast.If) and not b.body:
                    continue
                else:
                    res.append(b)
            return res

        def block(stmts):
            out = []
            for idx, st in enumerate(stmts):
                for fld in ("body", "orelse", "finalbody"):
                    blk = getattr(st, fld, None)
                    if isinstance(blk, list) and blk and isinstance(blk[0], ast.stmt) and not isinstance(st, (ast.FunctionDef, ast.ClassDef)):
                        setattr(st, fld, block(blk))
                for h in getattr(st, "handlers", []) or []:
                    h.body = block(h.body)
                if not isinstance(st, ast.For) or st.orelse:
                    out.append(st)
                    continue
                tnames = [n.id for n in ast.walk(st.target) if isinstance(n, ast.Name)]
                rows = rows_of(st.iter, st)
                # a loop the reference already has (same loop variables) is vocabulary the rules know: left alone
                if rows is None or not tnames or (ref_loops_known and frozenset(tnames) in ref_loops) or (not ref_loops_known and set(tnames) & pinned_locals):
                    out.append(st)
                    continue
                # ``if c: continue`` guards at the top of the body become ``if not c: <rest of the body>``
                loop_body = decontinue(list(st.body))
                if loop_body is None or any(isinstance(n, (ast.Break, ast.Continue, ast.Return, ast.Yield, ast.YieldFrom)) for b in loop_body for n in ast.walk(b)):
                    out.append(st)
                    continue
                st = ast.copy_location(ast.For(target=st.target, iter=st.iter, body=loop_body, orelse=[]), st)
                ast.fix_missing_locations(st)
                body_stores = {n.id for b in st.body for n in ast.walk(b) if isinstance(n, ast.Name) and isinstance(n.ctx, (ast.Store, ast.Del))}
                if body_stores & set(tnames):
                    out.append(st)
                    continue
                row_names = {n.id for r in (rows or []) for n in ast.walk(r) if isinstance(n, ast.Name)}
                if body_stores & row_names:
                    out.append(st)
                    continue
                temps = body_stores - pinned_locals
                # neither the loop variables nor the temporaries may be read after the loop (anywhere else in the function)
                inside = {id(n) for b in st.body for n in ast.walk(b)} | {id(n) for n in ast.walk(st.target)}
                # (a nested function's own parameter of the same name is another variable)
                shadowed = set()
                for d_ in ast.walk(func):
                    if isinstance(d_, (ast.FunctionDef, ast.Lambda)) and d_ is not func:
                        ps_ = {a.arg for a in d_.args.args + d_.args.kwonlyargs + d_.args.posonlyargs}
                        for x_ in ast.walk(d_):
                            if isinstance(x_, ast.Name) and x_.id in ps_:
                                shadowed.add(id(x_))
                outside_reads = {n.id for n in ast.walk(func) if isinstance(n, ast.Name) and id(n) not in inside and id(n) not in shadowed and n.id in (set(tnames) | temps)}
                if outside_reads:
                    out.append(st)
                    continue
                ok = True
                copies = []
                for r in rows:
                    mapping = {}
                    if isinstance(st.target, ast.Name):
                        mapping[st.target.id] = r
                    elif isinstance(st.target, ast.Tuple) and isinstance(r, (ast.Tuple, ast.List)) and len(r.elts) == len(st.target.elts) \
                            and all(isinstance(x, ast.Name) for x in st.target.elts):
                        for x, y in zip(st.target.elts, r.elts):
                            mapping[x.id] = y
                    else:
                        ok = False
                        break
                    counter[0] += 1
                    ren = {t: f"{t}__u{counter[0]}" for t in temps}
                    for b in st.body:
                        nb = copy.deepcopy(b)
                        for x in ast.walk(nb):
                            if isinstance(x, ast.Name) and x.id in ren:
                                x.id = ren[x.id]
                        nb = _Subst(mapping).visit(nb)
                        nb = _Attr().visit(nb)
                        copies.extend(fold_const_ifs([nb]))
                if not ok:
                    out.append(st)
                    continue
                for nb in copies:
                    for x in ast.walk(nb):
                        if not hasattr(x, "lineno"):
                            ast.copy_location(x, st)
                norm.report["helpers"].append(f"table loop at line {st.lineno} unrolled ({len(rows)} rows)")
                out.extend(copies)
            return out

        func.body = block(func.body)

    # -------------------------------------------------------------- loops over a produced sequence
    def _sink_generator_loops(self, func):
        """Two rewrites that bring a loop over a computed sequence back to a loop over its source:

        (1) ``if c: X = S1 else: X = S2`` directly followed by ``for t in X: body`` (X used nowhere else) becomes
            ``if c: for t in S1: body else: for t in S2: body``;
        (2) ``for (a, b) in ((E1, E2) for v in IT): body`` becomes ``for v in IT: body[a := E1, b := E2]`` when E1, E2 are plain
            names / constants / attribute chains that the body does not rebind and a, b are not used outside the loop
            (a generator yields one element per iteration, so the order of evaluation is unchanged; for a list display the
            elements are plain values)."""
        changed_any = False

        def name_uses(name):
            return [n for n in ast.walk(func) if isinstance(n, ast.Name) and n.id == name]

        def last_assign(block, name):
            """the block (following else-if chains) ends by assigning ``name``: list of (block, stmt) per leaf, or None"""
            if not block:
                return None
            st = block[-1]
            if isinstance(st, ast.Assign) and len(st.targets) == 1 and isinstance(st.targets[0], ast.Name) and st.targets[0].id == name:
                return [(block, st)]
            return None

        def leaves(ifnode, name):
            out = []
            a = last_assign(ifnode.body, name)
            if a is None:
                return None
            out += a
            if len(ifnode.orelse) == 1 and isinstance(ifnode.orelse[0], ast.If):
                b = leaves(ifnode.orelse[0], name)
            else:
                b = last_assign(ifnode.orelse, name)
            if b is None:
                return None
            return out + b

        def simple(e):
            # a plain local, a literal, or a field read off a plain local (read where the loop variable stood; the loop
            # body is checked below not to store a field of that name)
            if isinstance(e, (ast.Name, ast.Constant)):
                return True
            return isinstance(e, ast.Attribute) and simple(e.value)

        def rewrite_block(block):
            nonlocal changed_any
            i = 0
            while i < len(block):
                st = block[i]
                # (1)
                if isinstance(st, ast.If) and i + 1 < len(block) and isinstance(block[i + 1], ast.For) and isinstance(block[i + 1].iter, ast.Name) and not block[i + 1].orelse:
                    loop = block[i + 1]
                    x = loop.iter.id
                    lv = leaves(st, x)
                    if lv is not None:
                        uses = name_uses(x)
                        n_store = sum(1 for u in uses if isinstance(u.ctx, ast.Store))
                        n_load = sum(1 for u in uses if isinstance(u.ctx, ast.Load))
                        if n_store == len(lv) and n_load == 1:
                            for blk, asg in lv:
                                lp = copy.deepcopy(loop)
                                lp.iter = asg.value
                                blk[blk.index(asg)] = ast.copy_location(lp, asg)
                            del block[i + 1]
                            self.report.setdefault("sunk_loops", []).append(f"{func.name}.{x}")
                            changed_any = True
                            continue
                # (2)
                if isinstance(st, ast.For) and isinstance(st.iter, (ast.GeneratorExp, ast.ListComp)) and len(st.iter.generators) == 1 and not st.orelse:
                    g = st.iter.generators[0]
                    tg = st.target
                    elt = st.iter.elt
                    t_names = [tg] if isinstance(tg, ast.Name) else (list(tg.elts) if isinstance(tg, ast.Tuple) else None)
                    e_parts = [elt] if isinstance(tg, ast.Name) else (list(elt.elts) if isinstance(elt, ast.Tuple) else None)
                    if not g.ifs and not g.is_async and t_names is not None and e_parts is not None and len(t_names) == len(e_parts) \
                            and all(isinstance(t, ast.Name) for t in t_names) and all(simple(e) for e in e_parts):
                        tn = [t.id for t in t_names]
                        gen_vars = {n.id for n in ast.walk(g.target) if isinstance(n, ast.Name)}
                        body_stores = {n.id for b in st.body for n in ast.walk(b) if isinstance(n, ast.Name) and isinstance(n.ctx, (ast.Store, ast.Del))}
                        e_names = {n.id for e in e_parts for n in ast.walk(e) if isinstance(n, ast.Name)}
                        inside = {id(n) for n in ast.walk(st)}
                        par_ = _parents(func)

                        def rebound_above(n):
                            """a use inside another loop / comprehension that binds the name itself does not see this loop's value"""
                            p_ = par_.get(id(n))
                            while p_ is not None:
                                if isinstance(p_, ast.For) and p_ is not st and n.id in {x.id for x in ast.walk(p_.target) if isinstance(x, ast.Name)}:
                                    return True
                                if isinstance(p_, (ast.ListComp, ast.GeneratorExp, ast.SetComp, ast.DictComp)) and any(
                                        n.id in {x.id for x in ast.walk(g_.target) if isinstance(x, ast.Name)} for g_ in p_.generators):
                                    return True
                                p_ = par_.get(id(p_))
                            return False

                        outside_use = any(isinstance(n, ast.Name) and n.id in tn and id(n) not in inside and isinstance(n.ctx, ast.Load) and not rebound_above(n) for n in ast.walk(func))
                        # the generator's variable becomes a local of the function: it must not collide with another one
                        other_locals = {n.id for n in ast.walk(func) if isinstance(n, ast.Name) and id(n) not in inside} | {a.arg for a in func.args.args}
                        e_attrs = {n.attr for e in e_parts for n in ast.walk(e) if isinstance(n, ast.Attribute)}
                        attr_stores = {n.attr for b in st.body for n in ast.walk(b) if isinstance(n, ast.Attribute) and isinstance(n.ctx, (ast.Store, ast.Del))}
                        if not (body_stores & (set(tn) | e_names | gen_vars)) and not outside_use and not (gen_vars & (other_locals - set(tn))) and len(set(tn)) == len(tn) \
                                and not (e_attrs & attr_stores):
                            mapping = {t: e for t, e in zip(tn, e_parts) if not (isinstance(e, ast.Name) and e.id == t)}
                            sub = _Subst(mapping)
                            new_body = [sub.visit(copy.deepcopy(b)) for b in st.body]
                            lp = ast.For(target=g.target, iter=g.iter, body=new_body, orelse=[], type_comment=None)
                            block[i] = ast.copy_location(lp, st)
                            ast.fix_missing_locations(block[i])
                            self.report.setdefault("sunk_loops", []).append(f"{func.name}.<generator>")
                            changed_any = True
                            continue
                for fld in ("body", "orelse", "finalbody"):
                    sub_b = getattr(st, fld, None)
                    if isinstance(sub_b, list) and sub_b and isinstance(sub_b[0], ast.stmt):
                        rewrite_block(sub_b)
                for h in getattr(st, "handlers", []) or []:
                    rewrite_block(h.body)
                i += 1

        rewrite_block(func.body)
        return changed_any

    @staticmethod
    def _renumber(func):
        """After statements were spliced in from elsewhere (helpers, unrolled loops) line numbers no longer follow the
        order of execution.  The statements of the function get consecutive line numbers in source order (sub-expressions
        take their statement's); the position in the file is kept in ``_orig_lineno`` for reports."""
        counter = [func.lineno]

        def stmt(st):
            counter[0] += 1
            ln = counter[0]
            for fld, val in ast.iter_fields(st):
                if fld in ("body", "orelse", "finalbody", "handlers") and isinstance(val, list):
                    continue
                for sub in (val if isinstance(val, list) else [val]):
                    if isinstance(sub, ast.AST):
                        for x in ast.walk(sub):
                            if hasattr(x, "lineno"):
                                if not hasattr(x, "_orig_lineno"):
                                    x._orig_lineno = x.lineno
                                x.lineno = ln
                                x.end_lineno = ln
            if not hasattr(st, "_orig_lineno"):
                st._orig_lineno = getattr(st, "lineno", ln)
            st.lineno = ln
            for fld in ("body", "orelse", "finalbody"):
                for ch in getattr(st, fld, []) or []:
                    if isinstance(ch, ast.stmt):
                        stmt(ch)
            for h in getattr(st, "handlers", []) or []:
                counter[0] += 1
                h._orig_lineno = getattr(h, "lineno", counter[0])
                h.lineno = counter[0]
                for ch in h.body:
                    stmt(ch)
            st.end_lineno = counter[0]

        for b in func.body:
            stmt(b)
        func.end_lineno = counter[0]

    # -------------------------------------------------------------- driver
    def _compiled_patterns(self):
        """New module-level names bound once to ``re.compile(<constant pattern>[, <flags>])``: name -> (pattern, flags)."""
        out = {}
        pinned = _pinned_module(self.rel)
        for st in self.tree.body:
            if isinstance(st, ast.Assign) and len(st.targets) == 1 and isinstance(st.targets[0], ast.Name) and st.targets[0].id not in pinned \
                    and isinstance(st.value, ast.Call) and U(st.value.func) == "re.compile" and 1 <= len(st.value.args) <= 2 and not st.value.keywords:
                name = st.targets[0].id
                pat = st.value.args[0]
                pv = try_const(pat, self.const_env, default=_NO)
                stores = sum(1 for x in ast.walk(self.tree) if isinstance(x, ast.Name) and x.id == name and isinstance(x.ctx, (ast.Store, ast.Del)))
                if isinstance(pv, str) and stores == 1:
                    out[name] = (ast.Constant(pv), st.value.args[1] if len(st.value.args) == 2 else None)
        return out

    def _struct_constants(self):
        """New module-level names bound once to ``struct.Struct(<constant format>)``: name -> format."""
        out = {}
        pinned = _pinned_module(self.rel)
        for st in self.tree.body:
            if isinstance(st, ast.Assign) and len(st.targets) == 1 and isinstance(st.targets[0], ast.Name) and st.targets[0].id not in pinned \
                    and isinstance(st.value, ast.Call) and U(st.value.func) in ("struct.Struct", "Struct") and len(st.value.args) == 1 and not st.value.keywords:
                fmt = try_const(st.value.args[0], self.const_env, default=_NO)
                name = st.targets[0].id
                stores = sum(1 for x in ast.walk(self.tree) if isinstance(x, ast.Name) and x.id == name and isinstance(x.ctx, (ast.Store, ast.Del)))
                if isinstance(fmt, str) and stores == 1:
                    out[name] = fmt
        return out

    def _inline_struct_constants(self, func, structs):
        """``NAME.pack(x)`` -> ``struct.pack(<fmt>, x)``; likewise unpack / unpack_from / iter_unpack; ``NAME.size`` -> the number."""
        import struct as _struct
        local = _local_names(func)
        norm = self

        class T(ast.NodeTransformer):
            def visit_Call(self, node):
                self.generic_visit(node)
                f = node.func
                if isinstance(f, ast.Attribute) and isinstance(f.value, ast.Name) and f.value.id in structs and f.value.id not in local \
                        and f.attr in ("pack", "unpack", "unpack_from", "iter_unpack", "pack_into"):
                    new = ast.Call(func=ast.Attribute(value=ast.Name(id="struct", ctx=ast.Load()), attr=f.attr, ctx=ast.Load()),
                                   args=[ast.Constant(structs[f.value.id])] + list(node.args), keywords=list(node.keywords))
                    norm.report["constants"].append(f.value.id)
                    return ast.copy_location(ast.fix_missing_locations(new), node)
                return node

            def visit_Attribute(self, node):
                self.generic_visit(node)
                if isinstance(node.ctx, ast.Load) and node.attr == "size" and isinstance(node.value, ast.Name) and node.value.id in structs and node.value.id not in local:
                    try:
                        return ast.copy_location(ast.Constant(_struct.calcsize(structs[node.value.id])), node)
                    except _struct.error:
                        return node
                return node

        for i, b in enumerate(func.body):
            func.body[i] = T().visit(b)

    def _inline_compiled_patterns(self, func, pats):
        """``NAME.sub(r, s)`` -> ``re.sub(<pattern>, r, s)`` (and match / search / fullmatch / findall / finditer / split with the
        text as only positional argument) for a compiled pattern kept in a new module-level constant."""
        norm = self
        local = _local_names(func)

        class T(ast.NodeTransformer):
            def visit_Call(self, node):
                self.generic_visit(node)
                f = node.func
                if isinstance(f, ast.Attribute) and isinstance(f.value, ast.Name) and f.value.id in pats and f.value.id not in local:
                    pat, flags = pats[f.value.id]
                    ok = (f.attr in ("sub", "subn") and 2 <= len(node.args) <= 3) or (f.attr in ("match", "search", "fullmatch", "findall", "finditer", "split") and len(node.args) == 1)
                    if ok and not any(k.arg in ("pos", "endpos") for k in node.keywords):
                        kws = list(node.keywords) + ([ast.keyword(arg="flags", value=copy.deepcopy(flags))] if flags is not None else [])
                        new = ast.Call(func=ast.Attribute(value=ast.Name(id="re", ctx=ast.Load()), attr=f.attr, ctx=ast.Load()),
                                       args=[copy.deepcopy(pat)] + list(node.args), keywords=kws)
                        norm.report["constants"].append(f.value.id)
                        return ast.copy_location(ast.fix_missing_locations(new), node)
                return node

        for i, b in enumerate(func.body):
            func.body[i] = T().visit(b)

    def _positional_arguments(self, func, cls_name):
        """``f(a, y=2, x=1)`` -> ``f(a, 1, 2)`` when the definition of ``f`` is at hand (a module-level or nested function called
        by name, a method of the enclosing class called on self/cls, a method of the model called on ``<x>._model``), it takes no
        ``*args``, and the keyword values are plain (names, constants, attribute chains: nothing whose order of evaluation could
        be observed) or already stand in the order of the parameters."""
        mod_defs = {n.name: n for n in self.tree.body if isinstance(n, ast.FunctionDef)}
        nested = {n.name: n for n in ast.walk(func) if isinstance(n, ast.FunctionDef) and n is not func}
        cls_defs = {}
        if cls_name:
            for c in self.tree.body:
                if isinstance(c, ast.ClassDef) and c.name == cls_name:
                    cls_defs = {m.name: m for m in c.body if isinstance(m, ast.FunctionDef)}

        def plain(e):
            return isinstance(e, (ast.Name, ast.Constant)) or (isinstance(e, ast.Attribute) and plain(e.value))

        # keywords the reference version of this function already writes for that callee are vocabulary the rules know
        ref_f = self._reference_func(func)
        ref_kw = set()
        if ref_f is not None:
            for rc in ast.walk(ref_f):
                if isinstance(rc, ast.Call):
                    nm = rc.func.attr if isinstance(rc.func, ast.Attribute) else getattr(rc.func, "id", None)
                    for k in rc.keywords:
                        ref_kw.add((nm, k.arg))
        changed = False
        for c in ast.walk(func):
            if not isinstance(c, ast.Call) or not c.keywords or any(k.arg is None for k in c.keywords) or any(isinstance(a, ast.Starred) for a in c.args):
                continue
            callee_nm = c.func.attr if isinstance(c.func, ast.Attribute) else getattr(c.func, "id", None)
            if any((callee_nm, k.arg) in ref_kw for k in c.keywords):
                continue
            d, bound = None, False
            f = c.func
            if isinstance(f, ast.Name):
                d = nested.get(f.id) or mod_defs.get(f.id)
                if d is None and f.id in PACKAGE_FUNCTIONS and any(
                        isinstance(i_, ast.ImportFrom) and any((a_.asname or a_.name) == f.id for a_ in i_.names) for i_ in self.tree.body):
                    d = PACKAGE_FUNCTIONS[f.id]
            elif isinstance(f, ast.Attribute) and isinstance(f.value, ast.Name) and f.value.id in ("self", "cls"):
                d, bound = cls_defs.get(f.attr), True
            elif isinstance(f, ast.Attribute) and isinstance(f.value, ast.Attribute) and f.value.attr == "_model":
                d, bound = MODEL_SIGNATURES.get(f.attr), True
            elif isinstance(f, ast.Attribute) and isinstance(f.value, ast.Name) and f.value.id == "model" and f.attr in MODEL_SIGNATURES and self.rel.endswith("document.py"):
                d, bound = MODEL_SIGNATURES.get(f.attr), True
            if d is None or d.args.vararg or d.args.posonlyargs:
                continue
            decos = [U(x) for x in d.decorator_list]
            params = [a.arg for a in d.args.args]
            if bound and "staticmethod" not in decos and params and params[0] in ("self", "cls"):
                params = params[1:]
            if any("cache" in x for x in decos):
                continue  # a memoising decorator indexes *args: the spelling of the call is part of its meaning
            rest = params[len(c.args):]
            kw = {k.arg: k.value for k in c.keywords}
            if not set(kw) <= set(params) or len(kw) != len(c.keywords):
                continue
            in_order = [k.arg for k in c.keywords] == [p_ for p_ in rest if p_ in kw]
            if not (in_order or all(plain(v) for v in kw.values())):
                continue
            moved = []
            for p_ in rest:
                if p_ in kw:
                    moved.append(kw.pop(p_))
                else:
                    break
            if moved:
                c.args = list(c.args) + moved
                c.keywords = [k for k in c.keywords if k.arg in kw]
                changed = True
        if changed:
            self.report.setdefault("positional", []).append(func.name)
        return changed

    def run(self):
        tree = self.tree
        pats = self._compiled_patterns()
        structs = self._struct_constants()
        for n in list(ast.walk(tree)):
            if not isinstance(n, ast.FunctionDef):
                continue
            if pats:
                self._inline_compiled_patterns(n, pats)
            if structs:
                self._inline_struct_constants(n, structs)
            q = _qual(n, self.par)
            cls0 = None
            pp0 = self.par.get(id(n))
            while pp0 is not None:
                if isinstance(pp0, ast.ClassDef):
                    cls0 = pp0.name
                    break
                pp0 = self.par.get(id(pp0))
            self._positional_arguments(n, cls0)
            p = self.par.get(id(n))
            cls_name = None
            pp = p
            while pp is not None:
                if isinstance(pp, ast.ClassDef):
                    cls_name = pp.name
                    break
                pp = self.par.get(id(pp))
            n_helpers_before = len(self.report["helpers"])
            self._fold_constants(n)
            if n.name != "<lambda>" and _qual(n, self.par) in self.pinned_funcs:
                if any(isinstance(x, ast.NamedExpr) for x in ast.walk(n)):
                    self._dewalrus(n, set(self.pinned_funcs.get(_qual(n, self.par), [])))
                self._unroll_table_loops(n, set(self.pinned_funcs.get(_qual(n, self.par), [])))
                if self._sink_generator_loops(n):
                    self._renumber(n)
            if self.helpers or self.foreign or ITEMSLIST_METHODS:
                for _round in range(3):
                    taken = _local_names(n)
                    n.body = self._inline_stmt_calls(n.body, cls_name, taken)
                    for i, b in enumerate(n.body):
                        n.body[i] = self._inline_expr_calls(b, cls_name)
                    # f(a, *(b, c)) is f(a, b, c): a helper's result passed on as arguments can then be bound
                    if not _flatten_starred_displays(n):
                        break
            pinned_locals = set(self.pinned_funcs.get(q, [])) if q in self.pinned_funcs else set()
            if len(self.report["helpers"]) > n_helpers_before:
                _drop_self_assignments(n)  # ``x = x`` left by binding a helper's parameter to an argument of the same name
                self._fold_constants(n)  # what came in with a helper may name module constants
                if q in self.pinned_funcs:
                    # ... and loops over a table or a produced sequence
                    self._unroll_table_loops(n, pinned_locals)
                    self._sink_generator_loops(n)
                self._renumber(n)  # line order = execution order, which the alias pass relies on
            if q in self.pinned_funcs:
                self._propagate_aliases(n, pinned_locals)
            if len(self.report["helpers"]) > n_helpers_before:
                self._renumber(n)
        ast.fix_missing_locations(tree)
        return tree


MODEL_SIGNATURES = {}
PACKAGE_FUNCTIONS = {}


def _flatten_starred_displays(func):
    """``f(a, *(b, c))`` -> ``f(a, b, c)``; also through one local bound once to a tuple display of plain values and used
    only there (``rect = (a, b, c, d); f(x, *rect)``).  Returns whether anything changed."""
    changed = False
    stores = {}
    loads = {}
    for n in ast.walk(func):
        if isinstance(n, ast.Name):
            (stores if isinstance(n.ctx, (ast.Store, ast.Del)) else loads).setdefault(n.id, []).append(n)
    displays = {}
    # position in the text (depth-first, in field order): line numbers are not reliable after inlining
    order = {}

    def number(n):
        order[id(n)] = len(order)
        for ch in ast.iter_child_nodes(n):
            number(ch)
    number(func)
    for st in ast.walk(func):
        if isinstance(st, ast.Assign) and len(st.targets) == 1 and isinstance(st.targets[0], ast.Name) and isinstance(st.value, ast.Tuple) \
                and len(stores.get(st.targets[0].id, [])) == 1 and len(loads.get(st.targets[0].id, [])) == 1 \
                and all(isinstance(e, (ast.Name, ast.Constant)) for e in st.value.elts):
            elt_names = {e.id for e in st.value.elts if isinstance(e, ast.Name)}
            # the elements are bound once, before the display is built: the call sees the values the display holds
            if all(len(stores.get(x, [])) <= 1 and all(order.get(id(y), 0) < order.get(id(st), 0) for y in stores.get(x, [])) for x in elt_names):
                displays[st.targets[0].id] = st
    used = set()
    for c in ast.walk(func):
        if isinstance(c, ast.Call) and any(isinstance(a, ast.Starred) for a in c.args):
            new = []
            for a in c.args:
                v = a.value if isinstance(a, ast.Starred) else None
                if isinstance(v, ast.Name) and v.id in displays:
                    used.add(v.id)
                    v = displays[v.id].value
                if isinstance(v, (ast.Tuple, ast.List)) and not any(isinstance(x, ast.Starred) for x in v.elts):
                    new.extend(copy.deepcopy(x) for x in v.elts)
                    changed = True
                else:
                    new.append(a)
            c.args = new
    if used:
        def clean(block):
            out = [st for st in block if not (isinstance(st, ast.Assign) and len(st.targets) == 1 and isinstance(st.targets[0], ast.Name) and st.targets[0].id in used
                                              and displays.get(st.targets[0].id) is st)]
            for st in out:
                for fld in ("body", "orelse", "finalbody"):
                    sub = getattr(st, fld, None)
                    if isinstance(sub, list) and sub and isinstance(sub[0], ast.stmt):
                        setattr(st, fld, clean(sub) or ([ast.copy_location(ast.Pass(), st)] if fld == "body" else []))
                for h in getattr(st, "handlers", []) or []:
                    h.body = clean(h.body) or [ast.copy_location(ast.Pass(), h)]
            return out
        func.body = clean(func.body) or [ast.Pass()]
    return changed


def _drop_self_assignments(func):
    def clean(block):
        keep = []
        for st in block:
            if isinstance(st, ast.Assign) and len(st.targets) == 1 and isinstance(st.targets[0], ast.Name) and isinstance(st.value, ast.Name) and st.value.id == st.targets[0].id:
                continue
            for fld in ("body", "orelse", "finalbody"):
                sub = getattr(st, fld, None)
                if isinstance(sub, list) and sub and isinstance(sub[0], ast.stmt):
                    new = clean(sub)
                    setattr(st, fld, new if new or fld != "body" else [ast.copy_location(ast.Pass(), st)])
            for h in getattr(st, "handlers", []) or []:
                h.body = clean(h.body) or [ast.copy_location(ast.Pass(), h)]
            keep.append(st)
        return keep

    func.body = clean(func.body) or [ast.Pass()]


def new_module_constants(tree, rel, base_env):
    """Module-level names that are not pinned and fold to constants."""
    pinned = _pinned_module(rel)
    env = {}
    fold_env = dict(base_env)
    for n in tree.body:
        tgt = None
        val = None
        if isinstance(n, ast.Assign) and len(n.targets) == 1 and isinstance(n.targets[0], ast.Name):
            tgt, val = n.targets[0].id, n.value
        elif isinstance(n, ast.AnnAssign) and isinstance(n.target, ast.Name) and n.value is not None:
            tgt, val = n.target.id, n.value
        if tgt is None:
            continue
        v = try_const(val, fold_env, default=_NO)
        if v is _NO:
            continue
        if isinstance(v, (int, float, str, bytes, bool, type(None))) or (isinstance(v, tuple) and all(isinstance(x, (int, str, bytes, float)) for x in v)):
            fold_env[tgt] = v
            if tgt not in pinned:
                env[tgt] = v
    return env


_NO = object()


ITEMSLIST_METHODS: dict = {}


def new_methods(tree, rel, cls_name):
    """name -> FunctionDef of the methods of ``cls_name`` that are not in the pinned vocabulary (fresh copies)."""
    pinned = _pinned_functions(rel)
    out = {}
    for n in tree.body:
        if isinstance(n, ast.ClassDef) and n.name == cls_name:
            for m in n.body:
                if isinstance(m, ast.FunctionDef) and f"{cls_name}.{m.name}" not in pinned and not m.decorator_list:
                    out[m.name] = ast.parse(ast.unparse(m)).body[0]
    return out


def normalize_module(rel, tree, base_env, imported_new=None, foreign=None):
    """Return (normalised copy of the module tree, report)."""
    # work on a fresh parse: the shared raw tree carries parent links that must not be dragged into copies
    t = ast.parse(tree) if isinstance(tree, str) else ast.parse(ast.unparse(tree))
    env = new_module_constants(t, rel, base_env)
    if imported_new:
        # constants newly added to another repo module and imported here
        for n in t.body:
            if isinstance(n, ast.ImportFrom) and n.module and n.module.startswith("numbers_parser"):
                for a in n.names:
                    nm = a.asname or a.name
                    if a.name in imported_new and nm not in _pinned_module(rel):
                        env[nm] = imported_new[a.name]
    nz = Normalizer(rel, t, env, foreign)
    nz.run()
    return t, nz.report

"""Semantic model of the tile loop of ``_NumbersModel.recalculate_table_data``.

Reads, through loop domains and forward substitution, *which rows go into which tile* — independent of the loop spelling
(``while`` with a counter / ``for .. in range``), of how the size of the last tile is computed (``if``/``else`` or
``min``) and of temporaries.  ``model(repo)`` returns facts and a list of ``problems``.
"""

from __future__ import annotations

import ast

from .core import AnalysisError, U, body_walk, call_name, last_attr, try_const
from .linear import Lin
from .symexec import Straight, lin_opaque, loop_domain, subst


def as_min(expr, env):
    """Terms t1..tn (Lin) with ``expr == min(t1..tn)``; a plain linear expression is its own single term."""
    if isinstance(expr, ast.Call) and call_name(expr) == "min" and not expr.keywords and len(expr.args) >= 2:
        out = []
        for a in expr.args:
            out += as_min(a, env)
        return out
    if isinstance(expr, ast.IfExp) and isinstance(expr.test, ast.Compare) and len(expr.test.ops) == 1:
        op = expr.test.ops[0]
        x, y = lin_opaque(expr.test.left, env), lin_opaque(expr.test.comparators[0], env)
        tt, ff = as_min(expr.body, env), as_min(expr.orelse, env)
        if len(tt) == 1 and len(ff) == 1:
            t, f = tt[0], ff[0]
            d = (x - y) if isinstance(op, (ast.Gt, ast.GtE)) else ((y - x) if isinstance(op, (ast.Lt, ast.LtE)) else None)
            if d is not None and d.key() == (f - t).key():
                return [t, f]
            if d is not None and d.key() == (t - f).key():
                return [Lin(0, {f"<max:{U(expr)}>": 1})]
    if isinstance(expr, ast.BinOp) and isinstance(expr.op, (ast.Add, ast.Sub)):
        l, r = as_min(expr.left, env), as_min(expr.right, env)
        if len(r) == 1:
            return [t + r[0] if isinstance(expr.op, ast.Add) else t - r[0] for t in l]
        if len(l) == 1 and isinstance(expr.op, ast.Add):
            return [l[0] + t for t in r]
    return [lin_opaque(expr, env)]


def _keys(terms):
    return sorted(t.key() for t in terms)


def model(repo):
    f = repo.func("model.py", "_NumbersModel.recalculate_table_data")
    env = dict(repo.consts)
    MT = env.get("MAX_TILE_SIZE")
    if not isinstance(MT, int):
        raise AnalysisError("MAX_TILE_SIZE is not a foldable int")
    params = [a.arg for a in f.args.args]
    data = params[2] if len(params) >= 3 else "data"
    out = {"func": f, "problems": [], "MT": MT}
    P = out["problems"].append
    sl = Straight(f)
    LEN = Lin(0, {f"len({data})": 1})

    # ---- the tile loop: the loop whose body calls recalculate_row_info
    calls = [c for c in body_walk(f) if isinstance(c, ast.Call) and last_attr(c.func) == "recalculate_row_info"]
    if len(calls) != 1:
        raise AnalysisError("recalculate_table_data: call of recalculate_row_info not found")
    rcall = calls[0]
    chain = []
    p = rcall
    while getattr(p, "_parent", None) is not None and p is not f:
        p = p._parent
        if isinstance(p, (ast.For, ast.While)):
            chain.append(p)
    if len(chain) != 2:
        raise AnalysisError("recalculate_table_data: rows loop inside tile loop not found")
    rows_loop, tile_loop = chain
    out["tile_loop"], out["rows_loop"] = tile_loop, rows_loop
    dom = loop_domain(tile_loop, f, env)
    if dom is None or dom["var"] is None:
        raise AnalysisError(f"recalculate_table_data: tile loop `{U(tile_loop).splitlines()[0]}` is not a counting loop")
    tv = dom["var"]
    out["tile_var"] = tv
    # upper end, with the temporaries of the function prefix substituted
    if isinstance(tile_loop, ast.While):
        hi_ast = tile_loop.test.comparators[0]
        hi = lin_opaque(sl.at(tile_loop, hi_ast), env) + (Lin(1) if isinstance(tile_loop.test.ops[0], ast.LtE) else Lin(0))
        lo = dom["lo"]
    else:
        it = tile_loop.iter
        a = it.args
        hi = lin_opaque(sl.at(tile_loop, a[1] if len(a) >= 2 else a[0]), env)
        lo = lin_opaque(sl.at(tile_loop, a[0]), env) if len(a) >= 2 else Lin(0)
    shift = None
    atoms = list(hi.t)
    if len(atoms) == 1 and hi.t[atoms[0]] == 1 and hi.c == 1 and atoms[0].startswith("<"):
        try:
            e = ast.parse(atoms[0][1:-1], mode="eval").body
        except SyntaxError:
            e = None
        if isinstance(e, ast.BinOp) and U(e.left).replace(" ", "") == f"len({data})":
            if isinstance(e.op, ast.RShift):
                shift = try_const(e.right, env)
            elif isinstance(e.op, ast.FloorDiv):
                d = try_const(e.right, env)
                shift = d.bit_length() - 1 if isinstance(d, int) and d > 0 and d & (d - 1) == 0 else None
    out["shift"] = shift
    out["count_ok"] = shift is not None and 1 << shift == MT
    out["loop_ok"] = dom["step"] == 1 and lo.is_const() and lo.c == 0
    if not out["loop_ok"]:
        P(f"tile indices run from {lo} with step {dom['step']} (expected 0, 1, 2, ...)")
    # ---- body of the tile loop
    bs = Straight(f, stmts=tile_loop.body)
    rit = rows_loop.iter
    if not (isinstance(rows_loop, ast.For) and isinstance(rit, ast.Call) and call_name(rit) == "range" and len(rit.args) == 2 and isinstance(rows_loop.target, ast.Name)):
        raise AnalysisError("recalculate_table_data: rows loop is not `for row in range(a, b)`")
    A = lin_opaque(bs.at(rows_loop, rit.args[0]), env)
    Bt = as_min(bs.at(rows_loop, rit.args[1]), env)
    want_A = Lin(0, {tv: MT})
    out["row_start_ok"] = A.key() == want_A.key()
    if not out["row_start_ok"]:
        P(f"the first row of tile t is `{A}` (as a `>= 0` form) instead of t * {MT}")
    want_B = _keys([want_A + Lin(MT), LEN])
    out["partition_ok"] = out["row_start_ok"] and _keys(Bt) == want_B
    if not out["partition_ok"] and out["row_start_ok"]:
        P(f"the rows of tile t end at min{[repr(t) for t in Bt]} instead of min((t + 1) * {MT}, len({data})): the tile row ranges do not partition the grid")
    # ---- the call
    args = rcall.args
    rv = rows_loop.target.id
    ok = len(args) == 4 and not rcall.keywords and U(args[1]) == data and lin_opaque(bs.at(rows_loop, args[2]), env).key() == A.key() and U(args[3]) == rv
    out["rows_ok"] = ok
    if not ok:
        P(f"`{U(rcall)}` does not encode row `{rv}` with the tile's first row as offset")
    # appended to the rowInfos of the tile created in this iteration
    created = [n for n in tile_loop.body if isinstance(n, ast.Assign) and isinstance(n.value, ast.Call) and last_attr(n.value.func) == "create_object_from_dict"
               and "Tile" in U(n.value.args[-1] if n.value.args else n.value)]
    tile_id = tile_obj = None
    tile_dict = None
    if created and isinstance(created[0].targets[0], ast.Tuple) and len(created[0].targets[0].elts) == 2:
        tile_id, tile_obj = [U(e) for e in created[0].targets[0].elts]
        if len(created[0].value.args) >= 2:
            tile_dict = bs.at(created[0], created[0].value.args[1])
    if tile_obj is None:
        raise AnalysisError("recalculate_table_data: creation of the tile object not found")
    app = [c for c in ast.walk(rows_loop) if isinstance(c, ast.Call) and last_attr(c.func) == "append" and U(c.func.value) == f"{tile_obj}.rowInfos"]
    ok = len(app) == 1
    if ok:
        a0 = app[0].args[0]
        ok = a0 is rcall or (isinstance(a0, ast.Name) and any(isinstance(n, ast.Assign) and U(n.targets[0]) == a0.id and n.value is rcall for n in ast.walk(rows_loop)))
    if ok:
        q = app[0]
        while q is not rows_loop:
            q = q._parent
            if isinstance(q, (ast.If, ast.Try)):
                ok = False
    out["append_ok"] = ok
    if not ok:
        P("the encoded row is not appended to the rowInfos of the tile created for this index")
    # numrows declared by the tile
    nr = None
    if isinstance(tile_dict, ast.Dict):
        for k, v in zip(tile_dict.keys, tile_dict.values):
            if try_const(k) == "numrows":
                nr = as_min(v, env)
    want_n = _keys([Lin(MT), LEN - want_A])
    out["numrows_ok"] = nr is not None and _keys(nr) == want_n
    if not out["numrows_ok"]:
        P(f"the tile declares numrows = min{[repr(t) for t in nr] if nr else '?'} instead of the number of rows it holds")
    # ---- the tile reference
    refs = [n for n in ast.walk(tile_loop) if isinstance(n, ast.Assign) and isinstance(n.targets[0], ast.Attribute) and n.targets[0].attr == "tileid"]
    ok = len(refs) == 1 and U(bs.at(refs[0], refs[0].value)) == tv
    ref_var = U(refs[0].targets[0].value) if refs else None
    if not ok:
        P("the tile reference does not carry the tile index as tileid")
    merged = [c for c in ast.walk(tile_loop) if isinstance(c, ast.Call) and last_attr(c.func) == "MergeFrom" and ref_var and U(c.func.value) == f"{ref_var}.tile"]
    ok2 = len(merged) == 1 and any(isinstance(k, ast.keyword) and k.arg == "identifier" and U(k.value) == tile_id for c in ast.walk(merged[0]) if isinstance(c, ast.Call) for k in c.keywords)
    if not merged and ref_var:
        # the model's own helper: ``self.set_reference(obj, id)`` is ``obj.MergeFrom(Reference(identifier=id))`` (read from its body)
        try:
            sr = repo.func("model.py", "_NumbersModel.set_reference")
            ps = [a.arg for a in sr.args.args]
            body = [b for b in sr.body if not (isinstance(b, ast.Expr) and isinstance(b.value, ast.Constant))]
            is_merge = len(ps) == 3 and len(body) == 1 and isinstance(body[0], ast.Expr) and U(body[0].value).replace(" ", "") in (
                f"{ps[1]}.MergeFrom(TSPMessages.Reference(identifier={ps[2]}))", f"{ps[1]}.MergeFrom(Reference(identifier={ps[2]}))")
        except Exception:  # noqa: BLE001
            is_merge = False
        via = [c for c in ast.walk(tile_loop) if isinstance(c, ast.Call) and U(c.func) == "self.set_reference" and len(c.args) == 2 and not c.keywords and U(c.args[0]) == f"{ref_var}.tile"]
        ok2 = is_merge and len(via) == 1 and U(via[0].args[1]) == tile_id
    appended = [c for c in ast.walk(tile_loop) if isinstance(c, ast.Call) and last_attr(c.func) == "append" and U(bs.at(c, c.func.value)).endswith(".tiles.tiles") and c.args and U(c.args[0]) == ref_var]
    cleared = [c for c in body_walk(f) if isinstance(c, ast.Call) and last_attr(c.func) == "ClearField" and c.args and try_const(c.args[0]) == "tiles" and c.lineno < tile_loop.lineno]
    out["ref_ok"] = ok
    out["refs_ok"] = ok2 and len(appended) == 1 and bool(cleared)
    if not out["refs_ok"]:
        P("old tile references are not dropped, or the new tile is not referenced exactly once by its identifier")
    ts = [n for n in body_walk(f) if isinstance(n, ast.Assign) and isinstance(n.targets[0], ast.Attribute) and n.targets[0].attr == "tile_size"]
    out["tile_size_ok"] = bool(ts) and all(try_const(n.value, env) == MT for n in ts)
    if not out["tile_size_ok"]:
        P(f"tiles.tile_size is not set to {MT}")
    # ---- declared dimensions
    dims = {}
    for n in body_walk(f):
        if isinstance(n, ast.Assign) and isinstance(n.targets[0], ast.Attribute) and n.targets[0].attr in ("number_of_rows", "number_of_columns"):
            dims[n.targets[0].attr] = U(sl.at(n, n.value)).replace(" ", "")
    out["dims_ok"] = dims.get("number_of_rows") == f"len({data})" and dims.get("number_of_columns") == f"len({data}[0])"
    # ---- copy-back after the loop
    last = f.body[-1]
    out["copy_after_ok"] = isinstance(last, ast.Expr) and isinstance(last.value, ast.Call) and last_attr(last.value.func) == "update_object_file_store" \
        and last.lineno > tile_loop.end_lineno
    return out

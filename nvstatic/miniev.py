"""Own evaluator for small expression ASTs (E7 helper).

Used to interpret table lambdas and arithmetic expressions of the repository over a *finite, enumerated* domain of
one input field (all 24 hours, all power-of-two boundaries, ...).  No repository code is imported or executed: the
transfer function of every node kind is defined here; anything outside this language raises ``Unknown``.
"""

from __future__ import annotations

import ast
import math
import re

from .core import U

class Unknown(Exception):
    pass


class Field:
    """marker for the datetime argument"""


def _fmt_spec(v, spec):
    if spec in ("", None):
        return str(v)
    m = re.fullmatch(r"(0?)(\d*)d?", spec)
    if m and isinstance(v, int):
        w = int(m.group(2)) if m.group(2) else 0
        s = str(v)
        return s.rjust(w, "0" if m.group(1) else " ")
    raise Unknown(f"format spec {spec!r}")


def ev(e, env):
    """Evaluate an expression AST with own transfer functions. env: name -> value; the datetime argument is a dict of fields."""
    if isinstance(e, ast.Constant):
        return e.value
    if isinstance(e, ast.Name):
        if e.id in env:
            return env[e.id]
        raise Unknown(f"name {e.id}")
    if isinstance(e, ast.Attribute):
        base = ev(e.value, env)
        if isinstance(base, dict) and e.attr in base:
            return base[e.attr]
        raise Unknown(f"attribute {U(e)}")
    if isinstance(e, ast.BinOp):
        a, b = ev(e.left, env), ev(e.right, env)
        op = e.op
        if isinstance(op, ast.Add):
            return a + b
        if isinstance(op, ast.Sub):
            if isinstance(a, dict) and isinstance(b, dict):
                # difference of two datetimes that are known to differ only in the day of the month
                if set(a) == set(b) == {"day"}:
                    return {"days": a["day"] - b["day"]}
                raise Unknown("datetime difference")
            return a - b
        if isinstance(op, ast.Mult):
            return a * b
        if isinstance(op, ast.FloorDiv):
            return a // b
        if isinstance(op, ast.Mod):
            if isinstance(a, str):
                m = re.fullmatch(r"%(0?)(\d*)d", a)
                if m and isinstance(b, int):
                    return _fmt_spec(b, m.group(1) + m.group(2))
                raise Unknown("% formatting")
            return a % b
        if isinstance(op, ast.Div):
            return a / b
        if isinstance(op, ast.Pow) and isinstance(a, int) and isinstance(b, int) and 0 <= b <= 4096:
            return a**b
        if isinstance(op, ast.LShift) and isinstance(a, int) and isinstance(b, int) and 0 <= b <= 4096:
            return a << b
        if isinstance(op, ast.RShift) and isinstance(a, int) and isinstance(b, int) and b >= 0:
            return a >> b
        if isinstance(op, ast.BitAnd):
            return a & b
        if isinstance(op, ast.BitOr):
            return a | b
        raise Unknown(f"operator {type(op).__name__}")
    if isinstance(e, ast.UnaryOp):
        v = ev(e.operand, env)
        if isinstance(e.op, ast.USub):
            return -v
        if isinstance(e.op, ast.Not):
            return not v
    if isinstance(e, ast.BoolOp):
        vals = e.values
        if isinstance(e.op, ast.Or):
            for x in vals[:-1]:
                v = ev(x, env)
                if v:
                    return v
            return ev(vals[-1], env)
        for x in vals[:-1]:
            v = ev(x, env)
            if not v:
                return v
        return ev(vals[-1], env)
    if isinstance(e, ast.IfExp):
        return ev(e.body, env) if ev(e.test, env) else ev(e.orelse, env)
    if isinstance(e, ast.Compare):
        left = ev(e.left, env)
        for op, c in zip(e.ops, e.comparators):
            r = ev(c, env)
            ok = {ast.Lt: lambda a, b: a < b, ast.LtE: lambda a, b: a <= b, ast.Gt: lambda a, b: a > b, ast.GtE: lambda a, b: a >= b,
                  ast.Eq: lambda a, b: a == b, ast.NotEq: lambda a, b: a != b, ast.In: lambda a, b: a in b, ast.NotIn: lambda a, b: a not in b}.get(type(op))
            if ok is None:
                raise Unknown("comparison")
            if not ok(left, r):
                return False
            left = r
        return True
    if isinstance(e, ast.Subscript):
        base = ev(e.value, env)
        if isinstance(e.slice, ast.Slice):
            lo = ev(e.slice.lower, env) if e.slice.lower is not None else None
            hi = ev(e.slice.upper, env) if e.slice.upper is not None else None
            st = ev(e.slice.step, env) if e.slice.step is not None else None
            return base[lo:hi:st]
        return base[ev(e.slice, env)]
    if isinstance(e, ast.JoinedStr):
        out = ""
        for v in e.values:
            if isinstance(v, ast.Constant):
                out += v.value
            else:
                val = ev(v.value, env)
                spec = ""
                if v.format_spec is not None:
                    # a specification may itself hold fields: f"{n:0{width}d}"
                    for x in v.format_spec.values:
                        if isinstance(x, ast.Constant):
                            spec += x.value
                        elif isinstance(x, ast.FormattedValue) and x.format_spec is None and x.conversion == -1:
                            spec += str(ev(x.value, env))
                        else:
                            raise Unknown("format specification")
                out += _fmt_spec(val, spec) if spec else str(val)
        return out
    if isinstance(e, (ast.Tuple, ast.List)):
        return [ev(x, env) for x in e.elts]
    if isinstance(e, ast.Call):
        f = e.func
        if isinstance(f, ast.Name):
            args = [ev(a, env) for a in e.args]
            if f.id == "str" and len(args) == 1 and isinstance(args[0], (int, str)):
                return str(args[0])
            if f.id == "int" and len(args) == 1:
                return int(args[0])
            if f.id == "len":
                return len(args[0])
            if f.id in ("min", "max") and len(args) == 1 and isinstance(args[0], list):
                return {"min": min, "max": max}[f.id](args[0])
            if f.id in ("min", "max", "abs", "divmod", "round") and all(isinstance(a, (int, float)) for a in args):
                return {"min": min, "max": max, "abs": abs, "divmod": divmod, "round": round}[f.id](*args)
            if f.id == "bin" and len(args) == 1 and isinstance(args[0], int):
                return bin(args[0])
            if f.id == "format" and len(args) == 2:
                return _fmt_spec(args[0], args[1])
            if f.id in env and callable(env[f.id]):
                return env[f.id](*args)
            raise Unknown(f"call {f.id}")
        if isinstance(f, ast.Attribute):
            if isinstance(f.value, ast.Name) and f.value.id == "math" and f.attr in ("ceil", "floor", "log2", "log10", "log", "pow", "sqrt"):
                args = [ev(a, env) for a in e.args]
                return getattr(math, f.attr)(*args)
            if f.attr == "bit_length" and not e.args:
                base = ev(f.value, env)
                if isinstance(base, int):
                    return base.bit_length()
            if f.attr == "strftime":
                base = ev(f.value, env)
                fmt = ev(e.args[0], env)
                if isinstance(base, dict) and fmt == "%p" and "hour" in base:
                    return "AM" if base["hour"] < 12 else "PM"
                if isinstance(base, dict) and fmt in ("%H", "%M", "%S", "%I", "%j", "%-H", "%-M", "%-S", "%-I") :
                    tbl = {"%H": ("hour", 2), "%M": ("minute", 2), "%S": ("second", 2), "%j": ("yday", 3), "%-H": ("hour", 0), "%-M": ("minute", 0), "%-S": ("second", 0)}
                    if fmt in tbl and tbl[fmt][0] in base:
                        return str(base[tbl[fmt][0]]).zfill(tbl[fmt][1])
                    if fmt in ("%I", "%-I") and "hour" in base:
                        h = base["hour"] % 12 or 12
                        return str(h).zfill(2 if fmt == "%I" else 0)
                raise Unknown(f"strftime {fmt!r}")
            if f.attr == "replace" and not e.args and e.keywords:
                base = ev(f.value, env)
                if isinstance(base, dict) and all(k.arg in base for k in e.keywords):
                    out = dict(base)
                    for k in e.keywords:
                        out[k.arg] = ev(k.value, env)
                    return out
            if f.attr == "timetuple" and not e.args:
                base = ev(f.value, env)
                if isinstance(base, dict) and "yday" in base:
                    return {"tm_yday": base["yday"]}
                raise Unknown("timetuple")
            base = ev(f.value, env)
            args = [ev(a, env) for a in e.args]
            if isinstance(base, str) and f.attr in ("replace", "zfill", "lower", "upper", "rjust", "ljust", "lstrip", "rstrip", "strip", "startswith", "endswith", "join", "format"):
                if f.attr == "format":
                    raise Unknown("str.format")
                return getattr(base, f.attr)(*args)
            raise Unknown(f"method {f.attr}")
    raise Unknown(type(e).__name__)



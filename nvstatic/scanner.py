"""Transition table of the date-format scanner ``_decode_date_format`` (C14.R5).

The scanner is a loop over the characters of the format with two flags (inside quoted text, inside a field).  Its body
is summarised (funsum.block_paths: every path with the final value of each local over the values on entry) and
evaluated for every class of (current character, next character, flags); the step taken must be the one the format
language prescribes:

* ``''`` (two quotes) is a literal quote and consumes both; a lone quote toggles quoted text (opening one ends the field
  being read); a quote as the very last character ends the scan;
* inside quotes every character is copied; outside, a non-letter is copied (ending the field being read) and a letter
  starts or extends the field;
* a field still open at the end of the format is rendered.
"""

from __future__ import annotations

import ast
import itertools

from .core import AnalysisError, U
from . import funsum
from .funsum import Asg, Summarizer, _Simp, canon_text, expect, tv3
from .symexec import subst


def _n(src):
    return U(ast.parse(src, mode="eval").body)


def table(repo):
    f = repo.func("cell.py", "_decode_date_format")
    fmt_p, val_p = [a.arg for a in f.args.args[:2]]
    loops = [n for n in f.body if isinstance(n, ast.While)]
    if len(loops) != 1:
        raise AnalysisError("_decode_date_format: scanning loop not found")
    loop = loops[0]
    assigned_in_loop = {n.id for n in ast.walk(loop) if isinstance(n, ast.Name) and isinstance(n.ctx, ast.Store)}
    env0, init = {}, {}
    for st in f.body:
        if st is loop:
            break
        if isinstance(st, ast.Assign) and len(st.targets) == 1 and isinstance(st.targets[0], ast.Name):
            nm = st.targets[0].id
            v = subst(st.value, env0)
            if nm in assigned_in_loop:
                init[nm] = v
            else:
                env0[nm] = v
    # roles: the index advances by constants; the two flags start False; result and field start ""
    flags = sorted(k for k, v in init.items() if isinstance(v, ast.Constant) and v.value is False)
    strs = sorted(k for k, v in init.items() if isinstance(v, ast.Constant) and v.value == "")
    idxs = sorted(k for k, v in init.items() if isinstance(v, ast.Constant) and v.value == 0 and v.value is not False)
    rets = [n for n in f.body if isinstance(n, ast.Return)]
    if len(flags) != 2 or len(strs) != 2 or len(idxs) != 1 or len(rets) != 1 or not isinstance(rets[0].value, ast.Name):
        raise AnalysisError(f"_decode_date_format: scanner state not recognised (flags {flags}, strings {strs}, index {idxs})")
    index = idxs[0]
    result = rets[0].value.id
    field = next(s_ for s_ in strs if s_ != result)
    # the sequence scanned: what the loop test measures
    t = subst(loop.test, env0)
    if not (isinstance(t, ast.Compare) and len(t.ops) == 1 and isinstance(t.ops[0], ast.Lt) and U(t.left) == index and isinstance(t.comparators[0], ast.Call)
            and U(t.comparators[0].func) == "len" and len(t.comparators[0].args) == 1):
        raise AnalysisError(f"_decode_date_format: loop test `{U(t)}` is not `{index} < len(<characters>)`")
    SEQ = U(t.comparators[0].args[0])
    if SEQ not in (f"[*{fmt_p}]", f"list({fmt_p})", fmt_p):
        raise AnalysisError(f"_decode_date_format: scanned sequence `{SEQ}` is not the format string")
    sm = Summarizer()
    paths = sm.block_paths(loop.body, env0)
    # which flag is "in quoted text": the one toggled on the lone-quote path; decided by trying both assignments
    funsum.STRINGY_TEXTS |= {result, field, _n(f"{SEQ}[{index}]")}
    funsum.STRINGY_CALLS |= {"_decode_date_format_field"}
    FIELD = f"_decode_date_format_field({field}, {val_p})"
    CUR = f"{SEQ}[{index}]"

    def run(in_string, in_field):
        problems = {"doubled-quote": [], "literals": [], "fields": []}
        n = 0
        for cur, pos, st_, fl_ in itertools.product(["'", "a", "-"], ["last", "next'", "nexta"], [False, True], [False, True]):
            sc = {index: 3, _n(f"len({SEQ})"): 4 if pos == "last" else 10, _n(CUR): cur, _n(f"{CUR}.isalpha()"): cur == "a", in_string: st_, in_field: fl_}
            if pos != "last":
                sc[_n(f"{SEQ}[{index} + 1]")] = "'" if pos == "next'" else "a"
            asg = Asg(sc)
            hit = []
            for p in paths:
                tv = []
                sel = True
                for c, o in p.conds:
                    v = tv3(c, asg)
                    if v is None:
                        raise AnalysisError(f"_decode_date_format: branch `{U(c)[:80]}` is not decided by (character, next character, flags)")
                    if v != o:
                        sel = False
                        break
                if sel:
                    hit.append(p)
            if len(hit) != 1:
                raise AnalysisError(f"_decode_date_format: {len(hit)} paths for character {cur!r} ({pos}), flags {st_}/{fl_}")
            p = hit[0]
            n += 1

            def final(name, p=p, asg=asg):
                v = p.env.get(name)
                if v is None:
                    return name
                import copy
                return canon_text(_Simp(asg).visit(copy.deepcopy(funsum._strip(v))))
            # expected step
            want = {index: f"{index} + 1", result: result, field: field, in_string: in_string, in_field: in_field}
            kind = "fall"
            cat = "literals"
            if cur == "'":
                cat = "doubled-quote"
                if pos == "last":
                    kind = "break"
                    want = None
                elif pos == "next'":
                    want[index] = f"{index} + 2"
                    want[result] = f"{result} + \"'\""
                elif st_:
                    want[in_string] = "False"
                else:
                    want[in_string] = "True"
                    if fl_:
                        want[result] = f"{result} + {FIELD}"
                        want[in_field] = "False"
                        cat = "fields"
            elif st_:
                want[result] = f"{result} + {CUR}"
            elif cur != "a":
                want[result] = f"{result} + {FIELD} + {CUR}" if fl_ else f"{result} + {CUR}"
                want[in_field] = "False"
                cat = "fields" if fl_ else "literals"
            elif fl_:
                want[field] = f"{field} + {CUR}"
                cat = "fields"
            else:
                want[in_field] = "True"
                want[field] = CUR
                cat = "fields"
            where = f"character {cur!r}" + ("" if pos == "last" else f" followed by {sc[_n(f'{SEQ}[{index} + 1]')]!r}") + (" at the end" if pos == "last" else "") + \
                f", in quotes={st_}, in field={fl_}"
            if kind == "break":
                if p.kind != "break":
                    problems[cat].append((p.node, f"{where}: the scan goes on ({p.kind}) instead of ending"))
                continue
            if p.kind not in ("fall", "continue"):
                problems[cat].append((p.node, f"{where}: the scan ends ({p.kind})"))
                continue
            for name, w in want.items():
                got = final(name)
                ok = got == expect(w) or (w in ("True", "False") and got == w) or (name in (in_string, in_field) and w == name and got == str(sc[name]))
                if not ok and name in (in_string, in_field) and w in ("True", "False") and got == name and str(sc[name]) == w:
                    ok = True
                if not ok:
                    problems[cat].append((p.node, f"{where}: `{name}` becomes `{got}` instead of `{expect(w)}`"))
        return n, problems

    best = None
    for a, b in ((flags[0], flags[1]), (flags[1], flags[0])):
        n, problems = run(a, b)
        tot = sum(len(v) for v in problems.values())
        if best is None or tot < best[0]:
            best = (tot, n, problems, a, b)
    _tot, n, problems, in_string, in_field = best
    # after the loop: an open field is rendered, then the result is returned
    post = f.body[f.body.index(loop) + 1:]
    tail = sm.block_paths(post, {})
    for fl_ in (False, True):
        asg = Asg({in_field: fl_})
        hit = [p for p in tail if all(tv3(c, asg) == o for c, o in p.conds)]
        n += 1
        if len(hit) != 1 or hit[0].kind != "return":
            problems["fields"].append((rets[0], f"after the scan (in field={fl_}): no single returning path"))
            continue
        got = canon_text(hit[0].ret)
        want = expect(f"{result} + {FIELD}") if fl_ else result
        if got != want:
            problems["fields"].append((hit[0].node, f"after the scan with a field {'open' if fl_ else 'closed'}: returns `{got}` instead of `{want}`"))
    return f, n, problems

"""Semantic model of ``_NumbersModel.recalculate_row_info`` (the per-row record packer).

The packer walks the cells of one grid row, asks each for its record (``_to_buffer()``), and for every cell that has one
stores the current byte offset in the cell's slot, appends the record and advances the offset.  This module reads that
behaviour off the source through the loop domain and the paths of the loop body, so that the spelling of the loop
(``range(len(..))`` / ``enumerate``), of the skip (``if b is not None:`` / ``if b is None: continue``) and of the counter
(a field of the message or a local copied afterwards) does not matter.

``model(repo)`` returns a dict of facts plus ``problems`` (list of strings).  It raises AnalysisError only when the
function no longer has the overall shape "one loop over the row's cells".
"""

from __future__ import annotations

import ast

from .core import AnalysisError, U, body_walk, call_name, last_attr, try_const
from .linear import Lin
from .symexec import Straight, body_paths, lin_opaque, loop_domain, none_test, subst


def model(repo):
    f = repo.func("model.py", "_NumbersModel.recalculate_row_info")
    env = dict(repo.consts)
    params = [a.arg for a in f.args.args]
    if len(params) < 5:
        raise AnalysisError("recalculate_row_info: parameter list changed")
    _self, _tid, data, tro, row = params[:5]
    out = {"func": f, "problems": [], "params": params}
    P = out["problems"].append

    calls = [c for c in body_walk(f) if isinstance(c, ast.Call) and last_attr(c.func) == "_to_buffer"]
    if len(calls) != 1:
        raise AnalysisError(f"recalculate_row_info: {len(calls)} _to_buffer() calls (expected one inside the cell loop)")
    call = calls[0]
    loop = None
    p = call
    while getattr(p, "_parent", None) is not None:
        p = p._parent
        if isinstance(p, (ast.For, ast.While)):
            loop = p
            break
    if loop is None:
        raise AnalysisError("recalculate_row_info: _to_buffer() is not called in a loop")
    out["loop"] = loop
    dom = loop_domain(loop, f, env)
    if dom is None:
        raise AnalysisError(f"recalculate_row_info: loop `{U(loop).splitlines()[0]}` is not a counting loop")
    out["domain"] = dom
    row_expr = f"{data}[{row}]"
    # ---- the loop visits every column of data[row], ascending
    full = dom["step"] == 1 and dom["lo"].is_const() and dom["lo"].c == 0 and dom["hi"].key() == Lin(0, {f"len({row_expr})": 1}).key()
    if dom["seq"] is not None and U(dom["seq"]) != row_expr:
        full = False
    out["visits_all"] = full
    if not full:
        P(f"the cell loop runs over [{dom['lo']} , {dom['hi']}) step {dom['step']}" + (f" of `{U(dom['seq'])}`" if dom["seq"] is not None else "")
          + f" instead of every column of {row_expr} in ascending order")
    col = dom["var"]
    out["col"] = col
    # ---- which cell is encoded
    recv = call.func.value
    cell_ok = False
    if dom["elem"] and isinstance(recv, ast.Name) and recv.id == dom["elem"]:
        cell_ok = True
    elif col and U(recv).replace(" ", "") == f"{row_expr}[{col}]":
        cell_ok = True
    out["cell_ok"] = cell_ok
    if not cell_ok:
        P(f"the record comes from `{U(recv)}` which is not the cell at ({row}, column index)")
    # buffer name
    st = call
    while not isinstance(st, ast.stmt):
        st = st._parent
    # the record must be produced afresh for every cell on every save: it embeds keys of the string, format and style
    # lists that the save has just rebuilt
    guards = []
    q = st
    while getattr(q, "_parent", None) is not None and q._parent is not loop:
        q = q._parent
        if isinstance(q, ast.If):
            guards.append(U(q.test))
    if isinstance(st, ast.Assign) and len(st.targets) == 1 and isinstance(st.targets[0], ast.Attribute) and st.value is call:
        kept = U(st.targets[0])
        P(f"the record is kept in `{kept}`" + (f" and only re-encoded when `{guards[0]}`" if guards else "") +
          ": a record from an earlier save carries keys of lists that this save has renumbered (text cells reopen empty or with another cell's text)")
        later = [n for n in loop.body if isinstance(n, ast.Assign) and len(n.targets) == 1 and isinstance(n.targets[0], ast.Name) and U(n.value) == kept]
        if not later:
            raise AnalysisError("recalculate_row_info: the kept record is not read back into a local")
        st = later[0]
    elif guards and isinstance(st, ast.Assign) and len(st.targets) == 1 and isinstance(st.targets[0], ast.Name) and st.value is call:
        P(f"the cell is only re-encoded when `{guards[0]}`: otherwise a record from an earlier save is reused")
    elif not (isinstance(st, ast.Assign) and len(st.targets) == 1 and isinstance(st.targets[0], ast.Name) and st.value is call):
        raise AnalysisError("recalculate_row_info: `<name> = <cell>._to_buffer()` not found")
    B = st.targets[0].id
    if col is None:
        raise AnalysisError("recalculate_row_info: the cell loop has no column index")
    # ---- paths through the loop body
    try:
        paths = body_paths(loop.body)
    except ValueError as e:
        raise AnalysisError(f"recalculate_row_info: {e}") from e
    if isinstance(loop, ast.While):
        inc = dom.get("increment")
        paths = [(c, [s for s in steps if s is not inc], e) for c, steps, e in paths]
    emit_paths, skip_paths, other = [], [], []
    for conds, steps, end in paths:
        if end in ("break", "return", "raise"):
            other.append((conds, steps, end))
            continue
        verdicts = [none_test(t, B) for t, _o in conds]
        kinds = set()
        for (t, outcome), v in zip(conds, verdicts):
            if v is None:
                kinds.add("?")
            else:
                # v = outcome of the test when B is None; the path took `outcome`
                kinds.add("none" if outcome == v else "some")
        if "?" in kinds and len(kinds) > 1 or kinds == {"?"}:
            other.append((conds, steps, end))
        elif kinds == {"some"}:
            emit_paths.append((conds, steps, end))
        elif kinds == {"none"}:
            skip_paths.append((conds, steps, end))
        elif not kinds:
            emit_paths.append((conds, steps, end))
            skip_paths.append((conds, steps, end))
        else:
            pass  # contradictory (infeasible) path
    out["n_paths"] = len(paths)
    if other:
        desc = "; ".join(f"{'/'.join(U(t) + '=' + str(o) for t, o in c) or 'always'} -> {e}" for c, s, e in other[:3])
        P(f"the loop body has a path that leaves the loop or depends on something other than `{B} is None`: {desc}: "
          "cells after it in the row are not written")
    out["emit_paths"], out["skip_paths"] = emit_paths, skip_paths

    def effects(steps):
        eff = {"store": [], "append": [], "advance": [], "count": [], "other": []}
        for s in steps:
            if s is st:
                continue
            if isinstance(s, ast.Assign) and len(s.targets) == 1 and isinstance(s.targets[0], ast.Subscript) and U(s.targets[0].slice) == col:
                eff["store"].append(s)
            elif isinstance(s, ast.AugAssign) and isinstance(s.op, ast.Add) and isinstance(s.value, ast.Name) and s.value.id == B:
                eff["append"].append(s)
            elif isinstance(s, ast.AugAssign) and isinstance(s.op, ast.Add) and U(s.value).replace(" ", "") == f"len({B})":
                eff["advance"].append(s)
            elif isinstance(s, ast.AugAssign) and isinstance(s.op, ast.Add) and try_const(s.value) == 1:
                eff["count"].append(s)
            elif isinstance(s, ast.Assign) and len(s.targets) == 1 and isinstance(s.value, ast.BinOp) and isinstance(s.value.op, ast.Add) \
                    and U(s.value.left) == U(s.targets[0]) and isinstance(s.value.right, ast.Name) and s.value.right.id == B:
                eff["append"].append(s)
            else:
                eff["other"].append(s)
        return eff

    roles = {}
    for conds, steps, _e in emit_paths:
        e = effects(steps)
        if not (len(e["store"]) == 1 and len(e["append"]) == 1 and len(e["advance"]) == 1 and len(e["count"]) == 1):
            P(f"for a cell with a record the loop performs {len(e['store'])} offset store(s), {len(e['append'])} append(s), "
              f"{len(e['advance'])} cursor advance(s) and {len(e['count'])} count increment(s) (one of each expected)")
            continue
        store, app, adv, cnt = e["store"][0], e["append"][0], e["advance"][0], e["count"][0]
        cursor = U(adv.target)
        roles = {"offsets": U(store.targets[0].value), "cursor": cursor, "storage": U(app.target if isinstance(app, ast.AugAssign) else app.targets[0]),
                 "count": U(cnt.target), "store": store, "append": app, "advance": adv, "count_stmt": cnt}
        # the stored offset is the cursor *before* this record is accounted for
        order = [s for s in steps if s in (store, adv)]
        if order and order[0] is not store:
            P(f"`{U(store)}` runs after `{U(adv)}`: the slot holds the end of the record instead of its start")
        v = store.value
        sh = None
        if isinstance(v, ast.BinOp) and U(v.left) == cursor:
            if isinstance(v.op, ast.RShift):
                sh = try_const(v.right, env)
            elif isinstance(v.op, ast.FloorDiv):
                d = try_const(v.right, env)
                sh = d.bit_length() - 1 if isinstance(d, int) and d > 0 and d & (d - 1) == 0 else None
        elif U(v) == cursor:
            sh = 0
        if sh is None:
            P(f"the stored offset `{U(v)}` is not the cursor `{cursor}` scaled by a power of two")
        roles["shift"] = sh
        if e["other"]:
            roles.setdefault("extra", []).extend(U(x) for x in e["other"])
    for conds, steps, _e in skip_paths:
        e = effects(steps)
        if e["store"] or e["append"] or e["advance"] or e["count"]:
            if (conds, steps, _e) in emit_paths:
                continue  # unconditional body: already judged as an emit path; a None buffer would raise in len()
            P(f"for a cell without a record the loop still changes {[U(x) for k in ('store', 'append', 'advance', 'count') for x in e[k]]}: "
              "offsets, buffer and cell count disagree")
    if not emit_paths:
        P("no path of the loop body stores a record")
    out["roles"] = roles
    # ---- initial values and the fields written
    sl = Straight(f)
    if roles:
        def init_of(name):
            try:
                return sl.at(loop, ast.parse(name, mode="eval").body)
            except SyntaxError:
                return None
        off0 = init_of(roles["offsets"])
        ok = isinstance(off0, ast.BinOp) and isinstance(off0.op, ast.Mult)
        if ok:
            lst, n = (off0.left, off0.right) if isinstance(off0.left, ast.List) else (off0.right, off0.left)
            ok = isinstance(lst, ast.List) and len(lst.elts) == 1 and try_const(lst.elts[0]) == -1 and U(n).replace(" ", "") in (f"len({data}[0])", f"len({row_expr})")
        out["offsets_init_ok"] = ok
        if not ok:
            P(f"the offsets array starts as `{U(off0) if off0 is not None else '?'}` instead of one -1 slot per column")
        cur0 = init_of(roles["cursor"])
        if try_const(cur0) != 0:
            P(f"the cursor starts at `{U(cur0) if cur0 is not None else '?'}` instead of 0")
        sto0 = init_of(roles["storage"])
        if try_const(sto0) != b"":
            P(f"the record buffer starts as `{U(sto0) if sto0 is not None else '?'}` instead of empty")
        # fields of the message
        msg = None
        for n in body_walk(f):
            if isinstance(n, ast.Return) and isinstance(n.value, ast.Name):
                msg = n.value.id
        out["msg"] = msg
        fields = {}
        for n in body_walk(f):
            if isinstance(n, ast.Assign) and len(n.targets) == 1 and isinstance(n.targets[0], ast.Attribute) and U(n.targets[0].value) == msg:
                fields.setdefault(n.targets[0].attr, []).append(n)
        out["fields"] = fields
        after = lambda n: n.lineno > loop.end_lineno  # noqa: E731
        co = [n for n in fields.get("cell_offsets", []) if after(n)]
        okf = False
        if len(co) == 1 and isinstance(co[0].value, ast.Call) and call_name(co[0].value) == "pack":
            a = co[0].value.args
            okf = len(a) == 2 and isinstance(a[1], ast.Starred) and U(a[1].value) == roles["offsets"] and isinstance(a[0], ast.JoinedStr) \
                and U(a[0]).replace(" ", "") == f"f'<{{len({roles['offsets']})}}h'"
        if not okf:
            P("cell_offsets is not `pack(f'<{len(offsets)}h', *offsets)` of the offsets array")
        cs = [n for n in fields.get("cell_storage_buffer", []) if after(n)]
        if not (len(cs) == 1 and U(cs[0].value) == roles["storage"]):
            P("cell_storage_buffer is not assigned the accumulated records")
        # cell_count: either incremented in place (starting from 0) or copied from a local counter afterwards
        cnt = roles["count"]
        if cnt == f"{msg}.cell_count":
            init = [n for n in fields.get("cell_count", []) if n.lineno < loop.lineno]
            if not (init and try_const(init[-1].value) == 0):
                P("cell_count is incremented without being reset to 0 first")
        else:
            cc = [n for n in fields.get("cell_count", []) if after(n)]
            c0 = init_of(cnt)
            if not (len(cc) == 1 and U(cc[0].value) == cnt and try_const(c0) == 0):
                P(f"cell_count is not the number of records stored (counter `{cnt}`)")
        rets = [n for n in body_walk(f) if isinstance(n, ast.Return)]
        if not rets or any(not (isinstance(n.value, ast.Name) and n.value.id == msg) for n in rets):
            P("some path does not return the row record (every grid row must be present in its tile, also a row without records)")
        wide = fields.get("has_wide_offsets", [])
        out["wide"] = try_const(wide[-1].value) if wide else None
        tri = fields.get("tile_row_index", [])
        out["tile_row_index"] = tri[-1] if tri else None
    return out

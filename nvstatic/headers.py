"""Semantic model of ``recalculate_row_headers`` / ``recalculate_column_headers`` (the header-record writers).

One header record must be written for every row (column) of the grid, unconditionally, carrying the row's (column's)
own index.  The facts are read through the loop (or comprehension) that constructs the ``Header(...)`` records, whatever
its spelling.
"""

from __future__ import annotations

import ast

from .core import AnalysisError, U, body_walk, call_name, last_attr, try_const
from .symexec import Straight, _unwrap_alias, loop_domain


def _comp_domain(gen, func):
    """Domain of a comprehension generator, same vocabulary as symexec.loop_domain."""
    fake = ast.For(target=gen.target, iter=gen.iter, body=[], orelse=[])
    return loop_domain(fake, func)


def model(repo, axis):
    name = "recalculate_row_headers" if axis == "row" else "recalculate_column_headers"
    f = repo.func("model.py", f"_NumbersModel.{name}")
    params = [a.arg for a in f.args.args]
    data = params[2] if len(params) >= 3 else "data"
    out = {"func": f, "problems": []}
    P = out["problems"].append
    hdrs = [c for c in body_walk(f) if isinstance(c, ast.Call) and last_attr(c.func) == "Header" and c.keywords]
    if len(hdrs) != 1:
        raise AnalysisError(f"{name}: construction of the Header record not found ({len(hdrs)} sites)")
    h = hdrs[0]
    out["header"] = h
    kw = {k.arg: k.value for k in h.keywords}
    # enclosing iteration: a for statement or a comprehension
    loop = comp = None
    filters = []
    p = h
    while getattr(p, "_parent", None) is not None and p is not f:
        prev, p = p, p._parent
        if isinstance(p, ast.If) and any(prev is s for s in p.body + p.orelse) and loop is None and comp is None:
            filters.append(U(p.test))
        if isinstance(p, (ast.GeneratorExp, ast.ListComp)) and comp is None and loop is None:
            comp = p
            break
        if isinstance(p, (ast.For, ast.While)):
            loop = p
            break
    if loop is None and comp is None:
        raise AnalysisError(f"{name}: the Header record is not built in a loop")
    if comp is not None:
        if len(comp.generators) != 1:
            raise AnalysisError(f"{name}: nested comprehension around the Header record")
        g = comp.generators[0]
        dom = _comp_domain(g, f)
        filters += [U(i) for i in g.ifs]
        it = g.iter
    else:
        dom = loop_domain(loop, f)
        it = loop.iter if isinstance(loop, ast.For) else None
        if any(isinstance(n, (ast.Continue, ast.Break)) for n in ast.walk(loop)):
            filters.append("continue/break in the loop")
    if (dom is None or dom["var"] is None) and it is not None and any(isinstance(x, ast.Attribute) and x.attr in ("items", "keys", "values") for x in ast.walk(it)):
        # a loop over the entries of a map: one record per key the map happens to hold, not one per row/column of the grid
        P(f"the header loop runs over `{U(it)[:60]}`: a {axis} for which the map holds no entry gets no header record and reverts to the default size on reopen")
        out["header"], out["kw"], out["full"] = h, kw, False
        return out
    if dom is None or dom["var"] is None:
        raise AnalysisError(f"{name}: the header loop is not a counting loop")
    out["domain"] = dom
    if filters:
        P(f"a header record is written only when `{filters[0]}`: a {axis} that fails the test gets no record and reverts to the default size on reopen")
    # index keyword is the loop index
    idx = kw.get("index")
    bs = Straight(f, stmts=loop.body) if loop is not None else None
    idx_t = U(bs.at(_stmt_of(h), idx)) if (bs is not None and idx is not None) else (U(idx) if idx is not None else None)
    if idx_t != dom["var"]:
        P(f"the record's index is `{idx_t}` instead of the {axis} index `{dom['var']}`")
    # the domain covers the whole axis of the grid
    full = dom["step"] == 1 and dom["lo"].is_const() and dom["lo"].c == 0
    hi_t = repr(dom["hi"])
    # a sequence built with one element per element of another (a comprehension without a filter, list()/tuple() of it, a
    # local bound once to it) has that other sequence's length
    src = dom.get("seq")
    for _ in range(6):
        if isinstance(src, ast.Name):
            nxt = _unwrap_alias(f, src)
            if nxt is src or U(nxt) == U(src):
                break
            src = nxt
        elif isinstance(src, (ast.ListComp, ast.GeneratorExp)) and len(src.generators) == 1 and not src.generators[0].ifs:
            src = src.generators[0].iter
        elif isinstance(src, ast.Call) and call_name(src) in ("list", "tuple") and len(src.args) == 1 and not src.keywords:
            src = src.args[0]
        else:
            break
    src_t = U(src).replace(" ", "") if src is not None else ""
    if axis == "row":
        full = full and (hi_t == f"+len({data}) >= 0" or src_t == data)
    else:
        seq = dom["seq"]
        seq_t = U(seq).replace(" ", "") if seq is not None else ""
        full = full and (f"zip(*{data})" in seq_t or hi_t in (f"+len({data}[0]) >= 0",) or src_t == f"zip(*{data})")
    out["full"] = full
    if not full:
        P(f"the header loop runs over `{hi_t}`" + (f" of `{U(dom['seq'])}`" if dom.get("seq") is not None else "") + f" instead of every {axis} of the grid")
    # appended exactly once per record to <bucket>.headers
    if comp is not None:
        c = comp._parent
        ok = isinstance(c, ast.Call) and last_attr(c.func) in ("extend",) and U(c.func.value).endswith(".headers")
    else:
        apps = [c for c in ast.walk(loop) if isinstance(c, ast.Call) and last_attr(c.func) == "append" and U(c.func.value).endswith(".headers")]
        ok = len(apps) == 1 and (apps[0].args[0] is h or (isinstance(apps[0].args[0], ast.Name) and any(
            isinstance(n, ast.Assign) and U(n.targets[0]) == apps[0].args[0].id and n.value is h for n in ast.walk(loop))))
        if ok:
            q = apps[0]
            while q is not loop:
                prev, q = q, q._parent
                if isinstance(q, ast.If):
                    ok = False
    if not ok:
        P("the record built for an index is not appended (exactly once, unconditionally) to the bucket's headers")
    out["kw"] = kw
    # the size written is the size that was read, untransformed
    size = kw.get("size")
    if size is not None:
        e = bs.at(_stmt_of(h), size) if bs is not None else size
        e2 = _unwrap_alias(f, e) if isinstance(e, ast.Name) else e
        plain = (isinstance(e2, ast.Subscript) and isinstance(e2.value, ast.Name) and U(e2.slice) == dom["var"]) or (
            isinstance(e2, ast.Call) and last_attr(e2.func) in ("row_height", "col_width")) or (isinstance(e2, ast.Name) and dom.get("elem") is not None)
        out["size_expr"] = U(e2)
        if not plain:
            P(f"the size written is `{U(e2)[:70]}`, not the size read for that {axis}: some sizes are replaced (a 0.0 is resolved with the table's own default on reopen)")
    return out


def _stmt_of(n):
    while not isinstance(n, ast.stmt):
        n = n._parent
    return n

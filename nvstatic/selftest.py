"""Sensitivity corpus: in-memory variants of the current source.

A *mutant* breaks one rule instance yet still compiles: the property's check must report an
unlisted violation whose rule matches.  A *twin* is behaviour-preserving: the check must stay
silent.  Variants are textual edits applied to an in-memory overlay of the file (nothing is
written; the analysis only ever reads source text).  A variant whose anchor text is absent from
the current tree is skipped and reported as such.
"""

from __future__ import annotations

import importlib
from concurrent.futures import ProcessPoolExecutor
from dataclasses import dataclass

from .core import SRC, AnalysisError, Report, Repo, finish


@dataclass
class V:
    kind: str  # "mutant" | "twin"
    name: str
    file: str
    old: str
    new: str
    expect: str = ""  # rule prefix expected to fire (mutants)
    count: int = 1
    more: tuple = ()  # further (file, old, new) edits applied together


def M(name, file, old, new, expect="", count=1, more=()):
    return V("mutant", name, file, old, new, expect, count, more)


def T(name, file, old, new, count=1, more=()):
    return V("twin", name, file, old, new, "", count, more)


def _apply(repo_root: str, v: V):
    base = Repo(repo_root)
    overlay = {}
    edits = [(v.file, v.old, v.new, v.count)] + [(f, o, n, 1) for f, o, n in v.more]
    for file, old, new, count in edits:
        rel = file if "/" in file else f"{SRC}/{file}"
        src = overlay.get(rel) or base.source(rel)
        if src.count(old) != count:
            return None, f"anchor text occurs {src.count(old)}x (expected {count}) in {rel}"
        overlay[rel] = src.replace(old, new)
        if rel.endswith(".py"):
            try:
                compile(overlay[rel], rel, "exec")
            except SyntaxError as e:
                return None, f"variant does not compile: {e}"
    return overlay, ""


def _one(args):
    prop, root, v = args
    mod = importlib.import_module(f"nvstatic.props.{prop.lower()}")
    overlay, why = _apply(root, v)
    if overlay is None:
        return (v.kind, v.name, "skipped", why)
    repo = Repo(root, overlay=overlay)
    try:
        from .decide import decide

        rep = decide(prop, repo, "quick")
        code = finish(rep, write=False, quiet=True)
    except AnalysisError as e:
        if v.kind == "mutant" and v.expect == "ANALYSIS-ERROR":
            return (v.kind, v.name, "ok", "analysis error as expected")
        return (v.kind, v.name, "broken", f"analysis error: {e}")
    known = {o_key for o_key in rep.extra.get("_known", [])}
    from .core import load_known

    open_keys = {e["key"] for e in load_known().get("open", []) if e.get("property") == prop}
    unl = [o for o in rep.violations() if o.key not in open_keys]
    if v.kind == "mutant":
        hit = [o for o in unl if o.rule.startswith(v.expect)]
        if hit:
            return (v.kind, v.name, "ok", f"{hit[0].rule} at {hit[0].where}")
        if unl:
            return (v.kind, v.name, "broken", f"fired {sorted({o.rule for o in unl})} but not {v.expect}")
        return (v.kind, v.name, "broken", "not detected")
    if unl:
        return (v.kind, v.name, "broken", f"twin alarmed: {unl[0].rule} {unl[0].construct[:80]} -- {unl[0].detail[:120]}")
    return (v.kind, v.name, "ok", "")


def run_corpus(prop: str, root: str, seed: int = 0, verbose: bool = False) -> dict:
    mod = importlib.import_module(f"nvstatic.props.{prop.lower()}")
    variants = list(getattr(mod, "VARIANTS", []))
    results = []
    if variants:
        jobs = [(prop, root, v) for v in variants]
        if len(jobs) > 4:
            with ProcessPoolExecutor(max_workers=16) as ex:
                results = list(ex.map(_one, jobs))
        else:
            results = [_one(j) for j in jobs]
    broken = [f"{k} {n}: {why}" for k, n, st, why in results if st == "broken"]
    summary = {
        "variants": len(results),
        "mutants_caught": sum(1 for k, n, st, _ in results if k == "mutant" and st == "ok"),
        "mutants": sum(1 for k, n, st, _ in results if k == "mutant" and st != "skipped"),
        "twins_silent": sum(1 for k, n, st, _ in results if k == "twin" and st == "ok"),
        "twins": sum(1 for k, n, st, _ in results if k == "twin" and st != "skipped"),
        "skipped": [f"{n}: {why}" for k, n, st, why in results if st == "skipped"],
        "details": [f"{k}:{n}:{st}:{why}" for k, n, st, why in results] if verbose or True else [],
    }
    return {"summary": summary, "broken": broken}

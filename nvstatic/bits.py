"""Bit provenance of small integer expressions.

``bv(expr, env)`` maps each bit position of the value of ``expr`` to the bit of the *source* it is copied from, for
expressions built from ``&``, ``|``, ``<<``, ``>>``, ``*``/``//``/``%`` by powers of two, and ``+`` of bit-disjoint
operands.  Sources are byte reads ``name[<const>]`` (8 bits wide), the symbolic byte read ``name[<index name>]`` and any
other sub-expression (an opaque source of unbounded width, named by its text).  A rule compares the provenance maps of a
writer and of a reader instead of their spelling.
"""

from __future__ import annotations

import ast

from .core import U, try_const

WIDTH = 160  # bits tracked for opaque sources


class BV:
    __slots__ = ("bits", "ones")

    def __init__(self, bits=None, ones=None):
        self.bits = bits or {}  # position -> (source, source bit)
        self.ones = ones or set()  # positions that are constant 1

    def shl(self, k):
        return BV({p + k: v for p, v in self.bits.items() if p + k < WIDTH * 2}, {p + k for p in self.ones})

    def shr(self, k):
        return BV({p - k: v for p, v in self.bits.items() if p >= k}, {p - k for p in self.ones if p >= k})

    def mask(self, m):
        keep = {p for p in range(m.bit_length()) if m >> p & 1}
        return BV({p: v for p, v in self.bits.items() if p in keep}, {p for p in self.ones if p in keep})

    def disjoint(self, o):
        mine = set(self.bits) | self.ones
        theirs = set(o.bits) | o.ones
        return not (mine & theirs)

    def union(self, o):
        b = dict(self.bits)
        b.update(o.bits)
        return BV(b, self.ones | o.ones)

    def sources(self):
        return {s for s, _ in self.bits.values()}

    def __repr__(self):
        runs = []
        for p in sorted(self.bits):
            s, b = self.bits[p]
            if runs and runs[-1][0] == s and runs[-1][2] + 1 == p and runs[-1][4] + 1 == b:
                runs[-1][2] = p
                runs[-1][4] = b
            else:
                runs.append([s, p, p, b, b])
        txt = [f"[{a}..{b}]<-{s}[{c}..{d}]" for s, a, b, c, d in runs]
        if self.ones:
            txt.append(f"ones{sorted(self.ones)}")
        return " ".join(txt) or "0"


def _const(node, env):
    v = try_const(node, env)
    return v if isinstance(v, int) and not isinstance(v, bool) else None


def _pow2(v):
    return v.bit_length() - 1 if isinstance(v, int) and v > 0 and v & (v - 1) == 0 else None


def opaque(text, width=WIDTH):
    return BV({p: (text, p) for p in range(width)})


def bv(node, env=None, byte_arrays=(), narrow=None) -> BV:
    """Provenance of ``node``.  ``byte_arrays``: names whose subscripts are bytes (8 bits).  ``narrow``: source text ->
    bit width, for opaque sources known to be narrow."""
    env = env or {}
    narrow = narrow or {}
    c = _const(node, env)
    if c is not None and c >= 0:
        return BV({}, {p for p in range(c.bit_length()) if c >> p & 1})
    if isinstance(node, ast.Subscript) and not isinstance(node.slice, ast.Slice) and U(node.value) in byte_arrays:
        idx = _const(node.slice, env)
        src = f"{U(node.value)}[{idx if idx is not None else U(node.slice)}]"
        return BV({p: (src, p) for p in range(8)})
    if isinstance(node, ast.BinOp):
        if isinstance(node.op, (ast.LShift, ast.RShift)):
            k = _const(node.right, env)
            if k is not None and k >= 0:
                a = bv(node.left, env, byte_arrays, narrow)
                return a.shl(k) if isinstance(node.op, ast.LShift) else a.shr(k)
        if isinstance(node.op, ast.BitAnd):
            for x, y in ((node.left, node.right), (node.right, node.left)):
                m = _const(y, env)
                if m is not None and m >= 0:
                    return bv(x, env, byte_arrays, narrow).mask(m)
        if isinstance(node.op, (ast.BitOr, ast.Add, ast.BitXor)):
            a, b = bv(node.left, env, byte_arrays, narrow), bv(node.right, env, byte_arrays, narrow)
            if a.disjoint(b):
                return a.union(b)
        if isinstance(node.op, ast.Mult):
            for x, y in ((node.left, node.right), (node.right, node.left)):
                k = _pow2(_const(y, env))
                if k is not None:
                    return bv(x, env, byte_arrays, narrow).shl(k)
        if isinstance(node.op, ast.FloorDiv):
            k = _pow2(_const(node.right, env))
            if k is not None:
                return bv(node.left, env, byte_arrays, narrow).shr(k)
        if isinstance(node.op, ast.Mod):
            k = _pow2(_const(node.right, env))
            if k is not None:
                return bv(node.left, env, byte_arrays, narrow).mask((1 << k) - 1)
    txt = U(node)
    return opaque(txt, narrow.get(txt, WIDTH))

"""E5: inter-procedural exception-escape analysis.

``EscapeAnalysis.escapes(func)`` = set of (exception class, origin site text, origin location) that may
leave ``func``: explicit raises, resolved repo callees (fixpoint), a frozen table of external callees,
and implicit raisers (subscripts, unpack, max/min, pop, next, int/float) whose safety is not entailed
by guard facts.  ``try/except`` and ``with suppress`` subtract by class hierarchy.
"""

from __future__ import annotations

import ast
import struct

from . import cfg as cfgmod
from .core import Repo, U, body_walk, call_name, dotted, last_attr, try_const
from .effects import CLASS_HOME, RECEIVERS, call_writes_for
from .linear import GuardAnalysis, Lin

# --------------------------------------------------------------------------- class hierarchy

PARENT = {
    "Exception": "BaseException", "SystemExit": "BaseException", "KeyboardInterrupt": "BaseException", "GeneratorExit": "BaseException",
    "ArithmeticError": "Exception", "ZeroDivisionError": "ArithmeticError", "OverflowError": "ArithmeticError",
    "AssertionError": "Exception", "AttributeError": "Exception", "EOFError": "Exception", "BufferError": "Exception",
    "LookupError": "Exception", "IndexError": "LookupError", "KeyError": "LookupError",
    "NameError": "Exception", "OSError": "Exception", "FileNotFoundError": "OSError", "PermissionError": "OSError", "IsADirectoryError": "OSError",
    "RuntimeError": "Exception", "NotImplementedError": "RuntimeError", "RecursionError": "RuntimeError",
    "StopIteration": "Exception", "TypeError": "Exception", "ValueError": "Exception",
    "UnicodeError": "ValueError", "UnicodeDecodeError": "UnicodeError", "UnicodeEncodeError": "UnicodeError",
    "Warning": "Exception", "RuntimeWarning": "Warning", "DeprecationWarning": "Warning",
    # stdlib / third party (one witness each recorded in DESIGN.md section 2.5)
    "struct.error": "Exception", "zlib.error": "Exception", "BadZipFile": "Exception", "ExpatError": "Exception",
    "InvalidFileException": "ValueError", "csv.Error": "Exception", "DecodeError": "Exception", "EncodeError": "Exception",
    "ParseError": "Exception", "ArgumentTypeError": "Exception", "ParserError": "ValueError", "UncompressError": "Exception",
    "re.error": "Exception",
}
ALIASES = {"plistlib.InvalidFileException": "InvalidFileException", "zipfile.BadZipFile": "BadZipFile", "error": "struct.error",
           "argparse.ArgumentTypeError": "ArgumentTypeError", "IOError": "OSError", "EnvironmentError": "OSError"}


def is_subclass(c: str, base: str, parent=None) -> bool:
    parent = parent or PARENT
    seen = set()
    while c is not None and c not in seen:
        if c == base:
            return True
        seen.add(c)
        c = parent.get(c)
    return False


# --------------------------------------------------------------------------- external callee table
# (callee recogniser, exceptions).  OSError from the operating system is outside every property's fault model.

ZIP_READ = {"BadZipFile", "zlib.error", "EOFError", "UnicodeDecodeError", "NotImplementedError", "RuntimeError"}


def _zip_member_names(func) -> set:
    """Local names bound to an open member of a zip archive: ``m = zipf.open(name)`` / ``with zipf.open(name) as m``."""
    out = set()
    if func is None:
        return out
    for n in ast.walk(func):
        src = tgt = None
        if isinstance(n, ast.Assign) and len(n.targets) == 1 and isinstance(n.targets[0], ast.Name):
            src, tgt = n.value, n.targets[0].id
        elif isinstance(n, ast.withitem) and isinstance(n.optional_vars, ast.Name):
            src, tgt = n.context_expr, n.optional_vars.id
        if isinstance(src, ast.Call) and isinstance(src.func, ast.Attribute) and src.func.attr == "open" and "zip" in U(src.func.value).lower():
            out.add(tgt)
    return out


def external_raises(call: ast.Call, func=None) -> set | None:
    """Exceptions a known external callee may raise on hostile data; None = unknown callee."""
    name = last_attr(call.func)
    full = dotted(call.func) or ""
    recv = U(call.func.value) if isinstance(call.func, ast.Attribute) else ""
    if name == "open" and "zip" in recv.lower():
        # ZipFile.open checks the local header: BadZipFile, NotImplementedError (compression), RuntimeError (password), KeyError (no member)
        return {"BadZipFile", "NotImplementedError", "RuntimeError", "KeyError"}
    if name in ("read", "readline", "readlines", "read1", "readinto") and recv in _zip_member_names(func):
        # data errors surface lazily while the member is read
        return set(ZIP_READ)
    if name == "ZipFile":
        # reading the central directory: bad signatures/sizes (BadZipFile), "zip file version N" (NotImplementedError),
        # undecodable member names (UnicodeDecodeError)
        return {"BadZipFile", "NotImplementedError", "UnicodeDecodeError"}
    if name == "read" and "zip" in recv.lower():
        return set(ZIP_READ)
    if name == "getinfo" and "zip" in recv.lower():
        return {"KeyError"}
    if name in ("namelist", "writestr", "close") and "zip" in recv.lower():
        return set()
    if full in ("plistlib.loads", "plistlib.load"):
        # XML plists: malformed <integer>/<real>/<date>/<data> payloads raise ValueError
        return {"InvalidFileException", "ExpatError", "ValueError"}
    if full in ("snappy.uncompress", "snappy.decompress"):
        return {"Exception"}
    if full in ("snappy.compress",):
        return set()
    if name == "_DecodeVarint32":
        return {"DecodeError", "IndexError"}
    if name in ("FromString", "ParseFromString", "MergeFromString"):
        return {"DecodeError"}
    if name in ("ParseDict",):
        return {"ParseError"}
    if name == "parse" and full in ("parse", "dateutil.parser.parse"):
        return {"ParserError", "OverflowError"}
    if full in ("csv.reader",):
        return set()
    return None


SILENT_CALLS = {
    "debug", "warn", "print", "len", "str", "repr", "bytes", "bytearray", "isinstance", "hasattr", "getattr", "setattr", "sorted", "list", "tuple", "dict", "set",
    "range", "enumerate", "zip", "reversed", "partial", "type", "bool", "abs", "round", "any", "all", "sum", "iter", "format", "id", "callable", "super", "object",
    "join", "lower", "upper", "strip", "split", "replace", "startswith", "endswith", "append", "extend", "items", "keys", "values", "get", "update", "setdefault",
    "exists", "is_dir", "is_file", "iterdir", "mkdir", "open", "read", "write", "sub", "match", "search", "compile", "fullmatch", "group", "translate", "count",
    "ceil", "floor", "Path", "BytesIO", "fromkeys", "insert", "sort", "copy", "encode", "isalpha", "isnumeric", "isdigit", "find", "ljust", "rjust", "zfill",
    "tolist", "array", "maketrans", "with_suffix", "add_argument", "add_mutually_exclusive_group", "ArgumentParser", "parse_args", "print_help", "total_seconds",
    "timedelta", "datetime", "is_integer", "hex", "bin", "oct", "chr", "ord", "divmod", "min_", "lstrip", "rstrip", "title", "capitalize", "casefold", "splitlines",
    "strftime", "timetuple", "weekday", "defaultdict", "OrderedDict", "field", "dataclass", "wraps", "digest", "sha1", "basename", "chain", "from_iterable",
    "ListFields", "HasField", "MergeFrom", "CopyFrom", "ClearField", "SerializeToString", "SerializePartialToString", "ByteSize", "_VarintBytes", "MessageToDict",
    "unpack_result", "clear", "remove", "discard", "index_", "exit",
}


def _norm_seq(e):
    """Strip order/len-preserving wrappers: sorted(x), list(x), x.keys() ... -> x"""
    while True:
        if isinstance(e, ast.Call) and isinstance(e.func, ast.Name) and e.func.id in ("sorted", "list", "tuple", "reversed") and len(e.args) == 1:
            e = e.args[0]
            continue
        if isinstance(e, ast.Call) and isinstance(e.func, ast.Attribute) and e.func.attr in ("keys", "values", "items") and not e.args:
            e = e.func.value
            continue
        return e


def len_lin(e, facts):
    """Linear form of len(e) for bytes/sequence expressions, or None."""
    e = _norm_seq(e)
    v = try_const(e)
    if isinstance(v, (bytes, str, tuple, list)):
        return Lin(len(v))
    if isinstance(e, ast.BinOp) and isinstance(e.op, ast.Add):
        a, b = len_lin(e.left, facts), len_lin(e.right, facts)
        return a + b if a is not None and b is not None else None
    if isinstance(e, ast.Call) and isinstance(e.func, ast.Name) and e.func.id in ("bytes", "bytearray") and len(e.args) == 1:
        return len_lin(e.args[0], facts)
    if isinstance(e, ast.Subscript) and isinstance(e.slice, ast.Slice):
        sl = e.slice
        base = len_lin(e.value, facts)
        lo = try_const(sl.lower) if sl.lower is not None else 0
        if base is None or not isinstance(lo, int) or lo < 0 or sl.step is not None:
            return None
        if sl.upper is None:
            # len(x[k:]) = len(x) - k provided len(x) >= k
            if facts is not None and facts.entails(base - Lin(lo)):
                return base - Lin(lo)
            return None
        hi = try_const(sl.upper)
        if isinstance(hi, int) and hi >= lo and facts is not None and facts.entails(base - Lin(hi)):
            return Lin(hi - lo)
        return None
    if isinstance(e, (ast.Name, ast.Attribute, ast.Subscript)):
        return Lin(0, {f"len({U(e)})": 1})
    return None


class EscapeAnalysis:
    def __init__(self, repo: Repo, safe_site=None, extra_resolve=None, ignore=("OSError",)):
        self.repo = repo
        self.memo = {}
        self.in_progress = {}
        self.safe_site = safe_site or (lambda node, func, kind: False)
        self.extra_resolve = extra_resolve or (lambda call, func, cls: None)
        self.ignore = set(ignore)
        self.parent = dict(PARENT)
        self.unknown_calls = set()
        self.functions = set()
        self.sites = 0
        self._load_repo_classes()
        self._ga = {}

    # ---- class names
    def _load_repo_classes(self):
        self.repo_exc = {}
        for mod in ("exceptions.py", "tokenizer.py"):
            for n in self.repo.tree(mod).body:
                if isinstance(n, ast.ClassDef) and n.bases:
                    b = last_attr(n.bases[0])
                    name = f"np.{n.name}"
                    self.repo_exc[(mod, n.name)] = name
                    self.parent[name] = None  # filled below
        for (mod, cname), name in list(self.repo_exc.items()):
            cls = self.repo.cls(mod, cname)
            b = last_attr(cls.bases[0])
            if (mod, b) in self.repo_exc:
                self.parent[name] = self.repo_exc[(mod, b)]
            else:
                self.parent[name] = ALIASES.get(b, b)

    def module_imports(self, rel):
        """name -> qualified repo exception class for names imported into / defined in module ``rel``."""
        key = ("imports", rel)
        if key in self.memo:
            return self.memo[key]
        out = {}
        tree = self.repo.tree(rel)
        base = rel.split("/")[-1]
        for n in tree.body:
            if isinstance(n, ast.ImportFrom) and n.module:
                src = n.module.split(".")[-1] + ".py"
                for a in n.names:
                    if (src, a.name) in self.repo_exc:
                        out[a.asname or a.name] = self.repo_exc[(src, a.name)]
                    elif n.module == "numbers_parser" and any(k[1] == a.name for k in self.repo_exc):
                        out[a.asname or a.name] = next(v for k, v in self.repo_exc.items() if k[1] == a.name)
            if isinstance(n, ast.ClassDef) and (base, n.name) in self.repo_exc:
                out[n.name] = self.repo_exc[(base, n.name)]
        self.memo[key] = out
        return out

    def exc_name(self, node, rel) -> str:
        """Class name of an exception expression (``X(...)``, ``X``, ``mod.X``)."""
        if isinstance(node, ast.Call) and isinstance(node.func, (ast.Name, ast.Attribute)):
            # ``raise make_error(...)``: a module-level function or a method of this module every return of which is an
            # exception instance of one class
            nm_ = node.func.id if isinstance(node.func, ast.Name) else node.func.attr
            if nm_[:1].islower() or nm_.startswith("_"):
                try:
                    cands = [f for f in ast.walk(self.repo.tree(rel)) if isinstance(f, ast.FunctionDef) and f.name == nm_]
                except Exception:  # noqa: BLE001
                    cands = []
                if len(cands) == 1:
                    rets = [r for r in ast.walk(cands[0]) if isinstance(r, ast.Return) and r.value is not None]
                    names = {self.exc_name(r.value, rel) for r in rets if isinstance(r.value, ast.Call) and not (
                        isinstance(r.value.func, ast.Name) and r.value.func.id == nm_)}
                    if rets and len(names) == 1 and all(isinstance(r.value, ast.Call) for r in rets):
                        return next(iter(names))
        if isinstance(node, ast.Call):
            node = node.func
        d = dotted(node) or U(node)
        imports = self.module_imports(rel)
        if d in imports:
            return imports[d]
        d = ALIASES.get(d, d)
        short = d.split(".")[-1]
        if d in self.parent:
            return d
        if d in ("struct.error", "zlib.error", "csv.Error", "re.error"):
            return d
        if short in self.parent:
            return short
        return d

    def sub(self, c, base):
        return is_subclass(c, base, self.parent)

    # ---- resolution
    def class_of(self, func):
        p = getattr(func, "_parent", None)
        while p is not None:
            if isinstance(p, ast.ClassDef):
                return p.name
            p = getattr(p, "_parent", None)
        return None

    def _find_method(self, rel, cls, name, want_setter=False):
        try:
            c = self.repo.cls(rel, cls)
        except Exception:  # noqa: BLE001
            return []
        out = [n for n in c.body if isinstance(n, ast.FunctionDef) and n.name == name
               and any(U(d).endswith(".setter") for d in n.decorator_list) == want_setter]
        if not out:
            for b in c.bases:
                bn = last_attr(b)
                if bn in CLASS_HOME:
                    out += self._find_method(CLASS_HOME[bn], bn, name, want_setter)
        return out

    def resolve(self, call, func):
        rel = getattr(func, "_file", "")
        cls = self.class_of(func)
        x = self.extra_resolve(call, func, cls)
        if x is not None:
            return x
        f = call.func
        if isinstance(f, ast.Name):
            # local nested function, module function, imported function, class constructor
            for n in ast.walk(func):
                if isinstance(n, ast.FunctionDef) and n.name == f.id and n is not func:
                    return [n]
            tree = self.repo.tree(rel)
            for n in tree.body:
                if isinstance(n, ast.FunctionDef) and n.name == f.id:
                    return [n]
                if isinstance(n, ast.ClassDef) and n.name == f.id:
                    return self._find_method(rel, n.name, "__init__") + self._find_method(rel, n.name, "__post_init__")
            for n in tree.body:
                if isinstance(n, ast.ImportFrom) and n.module and n.module.startswith("numbers_parser"):
                    for a in n.names:
                        if (a.asname or a.name) == f.id:
                            src = n.module.split(".")[-1] + ".py"
                            if n.module == "numbers_parser":
                                src = CLASS_HOME.get(a.name, "")
                            if src and self.repo.exists(src):
                                for m in self.repo.tree(src).body:
                                    if isinstance(m, ast.FunctionDef) and m.name == a.name:
                                        return [m]
                                    if isinstance(m, ast.ClassDef) and m.name == a.name:
                                        return self._find_method(src, a.name, "__init__") + self._find_method(src, a.name, "__post_init__")
            return None
        if isinstance(f, ast.Attribute):
            recv = f.value
            if isinstance(recv, ast.Name) and recv.id in ("self", "cls") and cls:
                m = self._find_method(rel, cls, f.attr)
                return m or None
            if isinstance(recv, ast.Name) and recv.id in CLASS_HOME:
                m = self._find_method(CLASS_HOME[recv.id], recv.id, f.attr)
                return m or None
            if isinstance(recv, ast.Name):
                # a local bound (possibly alongside an attribute: ``self._x = x = Cls(...)``) to a new object of a known class
                for a_ in ast.walk(func):
                    if isinstance(a_, ast.Assign) and isinstance(a_.value, ast.Call) and isinstance(a_.value.func, ast.Name) and a_.value.func.id in CLASS_HOME \
                            and any(isinstance(t_, ast.Name) and t_.id == recv.id for t_ in a_.targets):
                        m = self._find_method(CLASS_HOME[a_.value.func.id], a_.value.func.id, f.attr)
                        if m:
                            return m
            key = last_attr(recv)
            if key in RECEIVERS and isinstance(recv, (ast.Name, ast.Attribute)):
                r, c = RECEIVERS[key]
                m = self._find_method(r, c, f.attr)
                return m or None
            # method name defined by exactly one class of the caller's own module
            tree = self.repo.tree(rel)
            owners = [c for c in tree.body if isinstance(c, ast.ClassDef) and any(isinstance(m, ast.FunctionDef) and m.name == f.attr for m in c.body)]
            if len(owners) == 1 and f.attr not in SILENT_CALLS and not f.attr.startswith("__"):
                return self._find_method(rel, owners[0].name, f.attr) or None
        return None

    def property_getters(self, node, func):
        """``self.x`` loads that invoke a property of the enclosing class."""
        if isinstance(node, ast.Attribute) and isinstance(node.ctx, ast.Load) and isinstance(node.value, ast.Name) and node.value.id == "self":
            cls = self.class_of(func)
            rel = getattr(func, "_file", "")
            if cls:
                return [m for m in self._find_method(rel, cls, node.attr) if any(U(d) == "property" for d in m.decorator_list)]
        return []

    # ---- guard facts
    def facts_at(self, func, node):
        if id(func) not in self._ga:
            try:
                cls = self.class_of(func)
                rel = getattr(func, "_file", "")
                cw = call_writes_for(self.repo, rel, cls) if cls else None
                self._ga[id(func)] = GuardAnalysis(func, env=self.repo.consts, call_writes=cw)
            except Exception:  # noqa: BLE001
                self._ga[id(func)] = None
        ga = self._ga[id(func)]
        if ga is None:
            return None
        try:
            return ga.facts_at(node)
        except Exception:  # noqa: BLE001
            return None

    # ---- per-node raise sets
    def site_raises(self, n, func):
        """Set of (class, description) raised *at* node n itself (not its children)."""
        rel = getattr(func, "_file", "")
        out = set()
        if isinstance(n, ast.Raise):
            if n.exc is None:
                out.add(("<reraise>", "raise"))
            else:
                out.add((self.exc_name(n.exc, rel), U(n)[:80]))
            return out
        if isinstance(n, ast.Assign) and len(n.targets) == 1 and isinstance(n.targets[0], (ast.Tuple, ast.List)) \
                and not any(isinstance(x, ast.Starred) for x in n.targets[0].elts):
            # ``a, b = text.split(sep)`` (also sliced: ``[:2]``): the number of pieces depends on the data
            v = n.value
            want = len(n.targets[0].elts)
            core = v.value if isinstance(v, ast.Subscript) and isinstance(v.slice, ast.Slice) else v
            if isinstance(core, ast.Call) and isinstance(core.func, ast.Attribute) and core.func.attr in ("split", "rsplit", "splitlines") \
                    and not self.safe_site(n, func, "unpack-split"):
                exact = False
                if isinstance(v, ast.Subscript):
                    # a slice bounds the count from above only
                    exact = False
                elif core.func.attr in ("split", "rsplit") and len(core.args) == 2 and try_const(core.args[1]) == want - 1:
                    exact = False  # maxsplit bounds it from above only as well
                if not exact:
                    out.add(("ValueError", f"{U(n)[:70]} (number of pieces not established)"))
            return out
        if isinstance(n, ast.Subscript) and isinstance(n.ctx, ast.Load) and not isinstance(n.slice, ast.Slice):
            base = n.value
            if isinstance(base, ast.Call) and last_attr(base.func) in ("unpack", "split", "groups", "_DecodeVarint32", "as_integer_ratio"):
                return out
            if isinstance(base, ast.Name) and base.id in ("args", "kwargs"):
                return out
            idx = try_const(n.slice)
            if self.safe_site(n, func, "subscript"):
                return out
            facts = self.facts_at(func, n)
            if isinstance(idx, int) and not isinstance(idx, bool):
                ll = len_lin(base, facts)
                need = Lin(idx + 1) if idx >= 0 else Lin(-idx)
                if ll is not None and facts is not None and facts.entails(ll - need):
                    return out
                out.add(("IndexError", f"{U(n)[:60]} (length not established)"))
            elif isinstance(idx, str):
                out.add(("KeyError", f"{U(n)[:60]}"))
            else:
                # non-constant index/key
                from .linear import lin as _lin
                il = _lin(n.slice, self.repo.consts)
                ll = len_lin(base, facts)
                if il is not None and ll is not None and facts is not None and facts.entails(ll - il - Lin(1)):
                    return out
                bt = U(base)
                if bt.isupper() or bt.split(".")[-1].isupper():
                    # the same key has already found an entry in another literal table whose keys are all keys of this one
                    def table_keys(b_):
                        nm_ = U(b_).split(".")[-1]
                        cls_ = self.class_of(func)
                        for q_ in ([f"{cls_}.{nm_}"] if cls_ else []) + [nm_]:
                            try:
                                d_ = self.repo.module_assign(rel, q_)
                            except Exception:  # noqa: BLE001
                                continue
                            if isinstance(d_, ast.Dict) and all(k_ is not None and isinstance(k_, ast.Constant) for k_ in d_.keys):
                                return {k_.value for k_ in d_.keys}
                        return None
                    mine = table_keys(base)
                    if mine is not None:
                        for o_ in ast.walk(func):
                            if isinstance(o_, ast.Subscript) and o_ is not n and isinstance(o_.ctx, ast.Load) and U(o_.slice) == U(n.slice) and U(o_.value) != bt \
                                    and getattr(o_, "lineno", 0) < getattr(n, "lineno", 0) and (U(o_.value).isupper() or U(o_.value).split(".")[-1].isupper()):
                                theirs = table_keys(o_.value)
                                stores_ = [x for x in ast.walk(func) if isinstance(x, ast.Name) and x.id == U(n.slice) and isinstance(x.ctx, ast.Store)]
                                if theirs is not None and theirs <= mine and len(stores_) <= 1:
                                    return out
                    out.add(("KeyError", f"{U(n)[:60]}"))
                else:
                    out.add(("LookupError?", f"{U(n)[:60]}"))
            return out
        if isinstance(n, ast.Call):
            name = last_attr(n.func)
            full = dotted(n.func) or ""
            ext = external_raises(n, func)
            if ext is not None:
                for c in ext:
                    out.add((c, U(n)[:80]))
                return out
            if name == "unpack" and len(n.args) == 2:
                fmt = try_const(n.args[0])
                facts = self.facts_at(func, n)
                ll = len_lin(n.args[1], facts)
                if isinstance(fmt, str) and ll is not None and facts is not None:
                    size = Lin(struct.calcsize(fmt))
                    if facts.entails(ll - size) and facts.entails(size - ll):
                        return out
                if not self.safe_site(n, func, "unpack"):
                    out.add(("struct.error", f"{U(n)[:70]} (buffer length not established)"))
                return out
            if name in ("max", "min") and isinstance(n.func, ast.Name) and len(n.args) == 1 and not n.keywords:
                facts = self.facts_at(func, n)
                a = n.args[0]
                if isinstance(a, (ast.List, ast.Tuple)) and a.elts:
                    return out
                if isinstance(a, ast.BinOp) and isinstance(a.op, ast.Add) and any(isinstance(x, (ast.List, ast.Tuple)) and x.elts for x in (a.left, a.right)):
                    return out
                ll = len_lin(a, facts)
                if ll is not None and facts is not None and facts.entails(ll - Lin(1)):
                    return out
                if not self.safe_site(n, func, "max"):
                    out.add(("ValueError", f"{U(n)[:60]} (possibly empty)"))
                return out
            if name == "next" and isinstance(n.func, ast.Name) and len(n.args) == 1:
                if not self.safe_site(n, func, "next"):
                    out.add(("StopIteration", U(n)[:60]))
                return out
            if name in ("int", "float") and isinstance(n.func, ast.Name) and n.args and not isinstance(n.args[0], ast.Constant):
                a = n.args[0]
                if isinstance(a, ast.Call) and last_attr(a.func) in ("total_seconds", "round", "floor", "ceil", "len", "log10", "float", "int"):
                    return out
                if isinstance(a, (ast.BinOp, ast.Compare)) or self.safe_site(n, func, "convert"):
                    return out
                out.add(("ValueError", f"{U(n)[:60]}"))
                return out
            if name == "pop" and isinstance(n.func, ast.Attribute) and not n.args:
                facts = self.facts_at(func, n)
                ll = Lin(0, {f"len({U(n.func.value)})": 1})
                if facts is not None and facts.entails(ll - Lin(1)):
                    return out
                if not self.safe_site(n, func, "pop"):
                    out.add(("IndexError", f"{U(n)[:60]} (possibly empty)"))
                return out
            if name == "index" and isinstance(n.func, ast.Attribute) and len(n.args) == 1:
                if not self.safe_site(n, func, "subscript"):
                    out.add(("ValueError", U(n)[:60]))
                return out
        return out

    # ---- main
    def escapes(self, func):
        key = id(func)
        if key in self.memo:
            return self.memo[key]
        if key in self.in_progress:
            return self.in_progress[key]
        self.in_progress[key] = set()
        self.functions.add(self.repo.qualname(func))
        result = set()
        for _ in range(4):  # fixpoint for recursion
            result = self._escapes_once(func)
            if result == self.in_progress[key]:
                break
            self.in_progress[key] = result
        del self.in_progress[key]
        self.memo[key] = result
        return result

    def _try_context(self, node, func):
        """List (innermost first) of ('try', Try, handlers) / ('suppress', classes) / ('handler', Try, handler) frames."""
        rel = getattr(func, "_file", "")
        frames = []
        child = node
        p = getattr(node, "_parent", None)
        while p is not None and child is not func:
            if isinstance(p, ast.Try):
                if any(child is s for s in p.body):
                    frames.append(("try", p))
                elif any(child is h for h in p.handlers):
                    pass
            if isinstance(p, ast.ExceptHandler):
                frames.append(("handler", p))
            if isinstance(p, ast.With) and any(child is s for s in p.body):
                for it in p.items:
                    ce = it.context_expr
                    if isinstance(ce, ast.Call) and last_attr(ce.func) == "suppress":
                        frames.append(("suppress", [self.exc_name(a, rel) for a in ce.args]))
            child = p
            p = getattr(p, "_parent", None)
        return frames

    def handler_types(self, h, rel):
        if h.type is None:
            return ["BaseException"]
        if isinstance(h.type, ast.Tuple):
            return [self.exc_name(e, rel) for e in h.type.elts]
        if isinstance(h.type, ast.Name) and h.type.id.isupper():
            # a module-level tuple of exception classes, possibly put together from smaller ones (``A + B``, ``(*A, X)``)
            def members(v, depth=0):
                if depth > 4:
                    return None
                if isinstance(v, ast.Tuple):
                    out_ = []
                    for e in v.elts:
                        if isinstance(e, ast.Starred):
                            sub_ = members(e.value, depth + 1)
                            if sub_ is None:
                                return None
                            out_ += sub_
                        else:
                            out_.append(e)
                    return out_
                if isinstance(v, ast.BinOp) and isinstance(v.op, ast.Add):
                    a_, b_ = members(v.left, depth + 1), members(v.right, depth + 1)
                    return None if a_ is None or b_ is None else a_ + b_
                if isinstance(v, ast.Name) and v.id.isupper():
                    try:
                        return members(self.repo.module_assign(rel, v.id), depth + 1)
                    except Exception:  # noqa: BLE001
                        return None
                return None
            els = members(h.type)
            if els is not None:
                return [self.exc_name(e, rel) for e in els]
        return [self.exc_name(h.type, rel)]

    def _body_raises(self, stmts, func):
        """Raise set of a statement list as seen from just outside it (used for bare re-raise)."""
        out = set()
        for s in stmts:
            for n in ast.walk(s):
                if isinstance(n, (ast.FunctionDef, ast.Lambda)):
                    continue
                out |= self._node_total(n, func)
        return out

    def _node_total(self, n, func):
        """What node n raises, including callee escapes (classes only with descriptions)."""
        out = set()
        for c, d in self.site_raises(n, func):
            out.add((c, d, self.repo.loc(n)))
        if isinstance(n, ast.Call):
            ext = external_raises(n, func)
            if ext is None:
                callees = self.resolve(n, func)
                if callees:
                    for cal in callees:
                        for c, d, loc in self.escapes(cal):
                            out.add((c, d, loc))
                else:
                    nm = last_attr(n.func) or U(n.func)[:30]
                    if nm not in SILENT_CALLS and not (nm[:1].isupper()):
                        self.unknown_calls.add(U(n.func)[:60])
        for g in self.property_getters(n, func):
            if g is not func:
                for c, d, loc in self.escapes(g):
                    out.add((c, d, loc))
        return out

    def _escapes_once(self, func):
        rel = getattr(func, "_file", "")
        out = set()
        for n in body_walk(func):
            raised = self._node_total(n, func)
            if not raised:
                continue
            self.sites += 1
            frames = self._try_context(n, func)
            for c, d, loc in raised:
                classes = [c]
                if c == "<reraise>":
                    # re-raise what the enclosing handler caught
                    hf = next((f for f in frames if f[0] == "handler"), None)
                    if hf is None:
                        continue
                    h = hf[1]
                    t = getattr(h, "_parent", None)
                    types = self.handler_types(h, rel)
                    body_r = self._body_raises(t.body, func) if isinstance(t, ast.Try) else set()
                    items = [(c2, d2, l2) for c2, d2, l2 in body_r if any(self._catches(ty, c2) for ty in types)]
                else:
                    items = [(c, d, loc)]
                for c2, d2, l2 in items:
                    if self._survives(c2, frames, rel, from_handler=(c == "<reraise>")):
                        # OS-originated errors are outside the fault model; an explicit ``raise OSError...`` is not
                        if d2.startswith("raise ") or not any(self.sub(c2.rstrip("?"), ig) for ig in self.ignore):
                            out.add((c2, d2, l2))
        return out

    def _catches(self, handler_type, c):
        c0 = c.rstrip("?")
        if c0 == "LookupError" and c.endswith("?"):
            # unknown subscript: caught only by handlers covering both IndexError and KeyError
            return self.sub("LookupError", handler_type)
        if c0 == "Exception":
            # "anything" (e.g. snappy): caught only by Exception/BaseException handlers
            return handler_type in ("Exception", "BaseException")
        return self.sub(c0, handler_type)

    def _survives(self, c, frames, rel, from_handler=False):
        skip_handler_try = None
        for fr in frames:
            if fr[0] == "handler":
                # raised inside a handler: the try it belongs to does not catch it
                skip_handler_try = getattr(fr[1], "_parent", None)
                continue
            if fr[0] == "suppress":
                if any(self._catches(t, c) for t in fr[1]):
                    return False
            if fr[0] == "try":
                t = fr[1]
                if t is skip_handler_try:
                    continue
                for h in t.handlers:
                    if any(self._catches(ty, c) for ty in self.handler_types(h, rel)):
                        return False
        return True

"""Decision-table rules for the number renderers of cell.py (C13): ``_format_base``, ``_twos_complement``,
``_format_currency`` and ``_format_fraction``.

Each renderer is summarised (funsum) into paths over its parameters, with the helpers it calls inlined, and the summary
is evaluated in every scenario of a finite partition of the inputs (sign / zero / rounding class of the value, the
format's flags, the base or accuracy class).  In each scenario the canonical text of the result must be the rendering
the property requires.  How the branches, temporaries and helpers are spelled does not matter; what is returned does.
"""

from __future__ import annotations

import ast
import itertools

from .core import AnalysisError, U, call_name, last_attr, try_const
from . import funsum
from .funsum import Summarizer, canon_text, cval, decide, expect

funsum.STRINGY_CALLS |= {"_format_decimal", "__BASESTR__", "_twos_complement"}
funsum.STRINGY_TEXTS |= {"CURRENCY_SYMBOLS[number_format.currency_code]", "number_format.currency_code"}


def module_literals(repo, rel="cell.py"):
    """Module-level ``NAME = <literal collection of scalars>`` (never rebound): usable as constants in scenarios."""
    out = {}
    counts = {}
    tree = repo.tree(rel)
    for n in ast.walk(tree):
        if isinstance(n, ast.Name) and isinstance(n.ctx, (ast.Store, ast.Del)):
            counts[n.id] = counts.get(n.id, 0) + 1
    for n in tree.body:
        if isinstance(n, ast.Assign) and len(n.targets) == 1 and isinstance(n.targets[0], ast.Name) and counts.get(n.targets[0].id) == 1:
            try:
                v = ast.literal_eval(n.value)
            except Exception:
                continue
            if isinstance(v, (list, tuple, set, frozenset)) and all(isinstance(x, (int, str, float)) for x in v):
                nm = n.targets[0].id
                mutated = any(isinstance(c, ast.Attribute) and isinstance(c.value, ast.Name) and c.value.id == nm and c.attr in ("append", "extend", "remove", "add", "insert", "pop", "clear", "sort")
                              for c in ast.walk(tree))
                if not mutated:
                    out[nm] = tuple(v)
    return out


# ------------------------------------------------------------------------------------------------ _format_base
def _digit_loop_hook(st, env, sub):
    """``while V: L.append(int(V % B)); V //= B`` in its spellings -> L is the digit list of V in base B."""
    if not isinstance(st, ast.While) or st.orelse:
        return None
    t = st.test
    if isinstance(t, ast.Name):
        V = t.id
    elif isinstance(t, ast.Compare) and len(t.ops) == 1 and isinstance(t.left, ast.Name) and (
            (isinstance(t.ops[0], (ast.Gt, ast.NotEq)) and try_const(t.comparators[0]) == 0) or (isinstance(t.ops[0], ast.GtE) and try_const(t.comparators[0]) == 1)):
        V = t.left.id
    else:
        return None
    from .symexec import subst
    le = {}
    sink = None  # (list name, mode, element expr)
    for s in st.body:
        if isinstance(s, ast.Assign) and len(s.targets) == 1 and isinstance(s.targets[0], ast.Name):
            le[s.targets[0].id] = subst(s.value, le)
        elif isinstance(s, ast.Assign) and len(s.targets) == 1 and isinstance(s.targets[0], ast.Tuple) and len(s.targets[0].elts) == 2 \
                and isinstance(s.value, ast.Call) and call_name(s.value) == "divmod" and len(s.value.args) == 2 and all(isinstance(x, ast.Name) for x in s.targets[0].elts):
            a, b = subst(s.value.args[0], le), subst(s.value.args[1], le)
            le[s.targets[0].elts[0].id] = ast.BinOp(left=a, op=ast.FloorDiv(), right=b)
            le[s.targets[0].elts[1].id] = ast.BinOp(left=a, op=ast.Mod(), right=b)
        elif isinstance(s, ast.AugAssign) and isinstance(s.target, ast.Name):
            cur = le.get(s.target.id, ast.Name(id=s.target.id, ctx=ast.Load()))
            le[s.target.id] = ast.BinOp(left=cur, op=s.op, right=subst(s.value, le))
        elif isinstance(s, ast.Expr) and isinstance(s.value, ast.Call) and isinstance(s.value.func, ast.Attribute) and isinstance(s.value.func.value, ast.Name) and sink is None:
            c = s.value
            if c.func.attr == "append" and len(c.args) == 1:
                sink = (c.func.value.id, "LSD", subst(c.args[0], le))
            elif c.func.attr == "insert" and len(c.args) == 2 and try_const(c.args[0]) == 0:
                sink = (c.func.value.id, "MSD", subst(c.args[1], le))
            else:
                return None
        else:
            return None
    newv = le.get(V)
    if not (isinstance(newv, ast.BinOp) and isinstance(newv.op, ast.FloorDiv) and U(newv.left) == V):
        return None
    B = newv.right
    b_t = U(B)
    entry = env.get(V, ast.Name(id=V, ctx=ast.Load()))
    b_outer = sub(B)
    upd = {V: ast.Constant(0)}
    if sink is not None:
        L, mode, elem = sink
        if U(elem) not in (f"int({V} % {b_t})", f"{V} % {b_t}"):
            return None
        if not (L in env and isinstance(env[L], ast.List) and not env[L].elts):
            return None
        upd[L] = ast.Call(func=ast.Name(id=f"__DIGITS_{mode}__", ctx=ast.Load()), args=[entry, b_outer], keywords=[])
        return upd
    # string accumulation: S = INT_TO_BASE_CHAR[int(V % B)] + S
    for name, e in le.items():
        if name == V:
            continue
        if isinstance(e, ast.BinOp) and isinstance(e.op, ast.Add) and isinstance(e.right, ast.Name) and e.right.id == name \
                and U(e.left) in {f"{t_}[int({V} % {b_t})]" for t_ in DIGIT_TABLES} | {f"{t_}[{V} % {b_t}]" for t_ in DIGIT_TABLES} \
                and name in env and try_const(env[name], default=None) == "":
            upd[name] = ast.Call(func=ast.Name(id="__BASESTR__", ctx=ast.Load()), args=[entry, b_outer], keywords=[])
            return upd
    return None


# spellings of the table of digit characters inside ``_format_base`` (its content is a separate obligation, C13.R4@digit-table)
DIGIT_TABLES = {"INT_TO_BASE_CHAR"}


def _find_digit_tables(f):
    """What `_format_base` subscripts for a digit: an ALL_CAPS name or a literal run of characters put in place by the normaliser."""
    out = {"INT_TO_BASE_CHAR"}
    for n in ast.walk(f):
        if isinstance(n, ast.Subscript) and not isinstance(n.slice, ast.Slice):
            v = n.value
            if isinstance(v, ast.Name) and v.id.isupper() and len(v.id) > 3:
                out.add(v.id)
            elif isinstance(v, ast.Constant) and isinstance(v.value, str) and len(v.value) >= 10:
                out.add(U(v))
    return out


class _JoinRewrite(ast.NodeTransformer):
    """``''.join(INT_TO_BASE_CHAR[x] for x in <digits most significant first>)`` -> ``__BASESTR__(V, B)``."""

    def visit_Call(self, node):
        self.generic_visit(node)
        if isinstance(node.func, ast.Attribute) and node.func.attr == "join" and try_const(node.func.value, default=None) == "" and len(node.args) == 1 \
                and isinstance(node.args[0], (ast.ListComp, ast.GeneratorExp)) and len(node.args[0].generators) == 1:
            comp = node.args[0]
            g = comp.generators[0]
            if not g.ifs and isinstance(g.target, ast.Name) and U(comp.elt) in {f"{t_}[{g.target.id}]" for t_ in DIGIT_TABLES}:
                it = g.iter
                d = None
                if isinstance(it, ast.Subscript) and U(it.slice) == "::-1" and isinstance(it.value, ast.Call) and call_name(it.value) == "__DIGITS_LSD__":
                    d = it.value
                elif isinstance(it, ast.Call) and call_name(it) in ("reversed", "__after_reverse__") and len(it.args) == 1 and isinstance(it.args[0], ast.Call) \
                        and call_name(it.args[0]) == "__DIGITS_LSD__":
                    d = it.args[0]
                elif isinstance(it, ast.Call) and call_name(it) == "__DIGITS_MSD__":
                    d = it
                if d is not None:
                    return ast.Call(func=ast.Name(id="__BASESTR__", ctx=ast.Load()), args=d.args, keywords=[])
        return node


def check_format_base(repo):
    f = repo.func("cell.py", "_format_base")
    v, nf = [a.arg for a in f.args.args[:2]]
    DIGIT_TABLES.clear()
    DIGIT_TABLES.update(_find_digit_tables(f))
    paths = Summarizer(loop_hook=_digit_loop_hook).summarize(f)
    lits = module_literals(repo)
    problems = []
    n = 0
    rw = lambda r: _JoinRewrite().visit(r)  # noqa: E731
    for val, minus, base in itertools.product([0, -5, 5, 0.3, -0.3], [True, False], [2, 8, 16, 7, 36]):
        r = round(val)
        sc = {**lits, v: val, f"round({v})": r, f"{nf}.base_use_minus_sign": minus, f"{nf}.base": base}
        places = f"{nf}.base_places"
        digits_abs = f"__BASESTR__(abs(round({v})), {nf}.base).zfill({places})"
        if val == 0:
            want = [expect(f"'0'.zfill({places})")]
            what = "zero is shown as 0 padded to base_places"
            cat = "pad"
        elif r < 0 and not minus and base in (2, 8, 16):
            want = [expect(f"_twos_complement(round({v}), {nf}.base)")]
            what = "a negative value without minus sign in base 2, 8, 16 is shown in two's complement"
            cat = "twos"
        elif r < 0:
            want = [expect(f"'-' + {digits_abs}"), expect(f"'-' + __BASESTR__(-round({v}), {nf}.base).zfill({places})")]
            what = "a negative value is a minus sign in front of the zero-padded digits of its magnitude"
            cat = "twos" if (not minus and base not in (2, 8, 16)) else "pad"
        else:
            want = [expect(digits_abs), expect(f"__BASESTR__(round({v}), {nf}.base).zfill({places})")]
            what = "a non-negative value is the zero-padded digits of the rounded value, most significant first"
            cat = "digits"
        for fx, kind, got, p in decide(paths, sc, rewrite=rw):
            n += 1
            if kind != "return" or got not in want:
                problems.append((cat, p.node, f"value={val}, base={base}, base_use_minus_sign={minus}" + (f", {fx}" if fx else "") + f": returns `{got}`; {what} (`{want[0]}`)"))
    return f, n, problems


# ------------------------------------------------------------------------------------------------ _twos_complement
class _MaxList(ast.NodeTransformer):
    """max([a, b]) -> max(a, b); the digits of a non-negative integer in base 2 / 8 / 16 written with a format specification
    (``f"{n:b}"``, ``format(n, "o")``, ``f"{n:X}"``) -> the spelling with bin / oct / hex and the prefix cut off (inside
    _twos_complement every number printed this way is a magnitude or a magnitude's complement plus one)"""

    _SPEC = {"b": ("bin", False), "o": ("oct", False), "x": ("hex", False), "X": ("hex", True)}

    def _digits(self, value, spec):
        fn, upper = self._SPEC[spec]
        e = ast.Subscript(value=ast.Call(func=ast.Name(id=fn, ctx=ast.Load()), args=[value], keywords=[]),
                          slice=ast.Slice(lower=ast.Constant(2), upper=None, step=None), ctx=ast.Load())
        if upper:
            e = ast.Call(func=ast.Attribute(value=e, attr="upper", ctx=ast.Load()), args=[], keywords=[])
        return e

    def visit_Call(self, node):
        self.generic_visit(node)
        if isinstance(node.func, ast.Name) and node.func.id in ("max", "min") and len(node.args) == 1 and isinstance(node.args[0], (ast.List, ast.Tuple)) and not node.keywords:
            return ast.Call(func=node.func, args=list(node.args[0].elts), keywords=[])
        if isinstance(node.func, ast.Name) and node.func.id == "format" and len(node.args) == 2 and not node.keywords and isinstance(node.args[1], ast.Constant) \
                and node.args[1].value in self._SPEC:
            return self._digits(node.args[0], node.args[1].value)
        return node

    def visit_JoinedStr(self, node):
        self.generic_visit(node)
        if len(node.values) == 1 and isinstance(node.values[0], ast.FormattedValue) and node.values[0].conversion == -1:
            fs = node.values[0].format_spec
            if isinstance(fs, ast.JoinedStr) and len(fs.values) == 1 and isinstance(fs.values[0], ast.Constant) and fs.values[0].value in self._SPEC:
                return self._digits(node.values[0].value, fs.values[0].value)
        return node


def _width_in(r):
    """The pad width W of ``_invert_bit_str(...).rjust(W, '1')`` inside a result expression."""
    for n in ast.walk(r):
        if isinstance(n, ast.Call) and isinstance(n.func, ast.Attribute) and n.func.attr == "rjust" and len(n.args) == 2 and isinstance(n.func.value, ast.Call) \
                and call_name(n.func.value) == "_invert_bit_str":
            return n.args[0]
    return None


def twos_complement_table(repo):
    """(function, scenarios, problems, width_of) of _twos_complement; ``width_of(mag)`` is the width expression that
    applies to the value ``-mag`` (conditional widths are resolved with the concrete value)."""
    f = repo.func("cell.py", "_twos_complement")
    v, b = [a.arg for a in f.args.args[:2]]
    paths = Summarizer().summarize(f)
    lits = module_literals(repo)
    rw = lambda r: _MaxList().visit(r)  # noqa: E731
    problems = []
    n = 0
    for base in (2, 8, 16):
        for fx, kind, got, p in decide(paths, {**lits, b: base}, rewrite=rw):
            n += 1
            from .funsum import Asg, _Simp
            import copy
            r = rw(_Simp(Asg({**lits, b: base}, fx)).visit(copy.deepcopy(funsum._strip(p.ret)))) if p.ret is not None else None
            width = _width_in(r) if r is not None else None
            if kind != "return" or width is None:
                problems.append((p.node, f"base {base}" + (f", {fx}" if fx else "") + f": the result `{got}` does not pad the inverted bits of the magnitude to a width with rjust(width, '1')"))
                continue
            W = canon_text(width)
            T = f"int(_invert_bit_str(bin(abs({v}))[2:]).rjust({W}, '1'), 2) + 1"
            want = {2: f"bin({T})[2:].rjust({W}, '1')", 8: f"oct({T})[2:]", 16: f"hex({T})[2:].upper()"}[base]
            if got != expect(want):
                problems.append((p.node, f"base {base}" + (f", {fx}" if fx else "") + f": returns `{got}` instead of `{expect(want)}` (invert the magnitude's bits over the width, add one, print in the base)"))

    def width_of(mag):
        sc = {**lits, v: -mag, b: 2}
        out = decide(paths, sc, rewrite=rw)
        if len(out) != 1:
            raise AnalysisError(f"_twos_complement: the width for value {-mag} depends on other facts: {[fx for fx, *_ in out]}")
        from .funsum import Asg, _Simp
        import copy
        p = out[0][3]
        r = rw(_Simp(Asg(sc)).visit(copy.deepcopy(funsum._strip(p.ret))))
        w = _width_in(r)
        if w is None:
            raise AnalysisError("_twos_complement: no width in the base-2 result")
        return w

    return f, n, problems, width_of


# ------------------------------------------------------------------------------------------------ _format_currency
def check_format_currency(repo):
    f = repo.func("cell.py", "_format_currency")
    v, nf = [a.arg for a in f.args.args[:2]]
    helpers = {n.name: n for n in repo.tree("cell.py").body if isinstance(n, ast.FunctionDef) and n.name not in ("_format_decimal",)}
    inline = {k: h for k, h in helpers.items() if k not in repo_pinned(repo)}
    paths = Summarizer(inline=inline).summarize(f)
    problems = []
    n = 0
    code_in = f"{nf}.currency_code in CURRENCY_SYMBOLS"
    for val, acc, known in itertools.product([-5, 0, 5], [True, False], [True, False]):
        sc = {v: val, f"{nf}.use_accounting_style": acc, code_in: known}
        sym = f"CURRENCY_SYMBOLS[{nf}.currency_code]" if known else f"({nf}.currency_code + ' ')"
        if acc and val < 0:
            want = expect(f"{sym} + '\\t(' + _format_decimal(abs({v}), {nf}) + ')'")
            what = "accounting style shows a negative amount as its magnitude in parentheses"
        elif acc:
            want = expect(f"{sym} + '\\t' + _format_decimal({v}, {nf})")
            what = "accounting style separates symbol and amount with a tab"
        else:
            want = expect(f"{sym} + _format_decimal({v}, {nf})")
            what = "the amount is the decimal rendering of the value behind the currency symbol"
        for fx, kind, got, p in decide(paths, sc):
            n += 1
            if kind != "return" or got != want:
                problems.append((p.node, f"value={val}, accounting={acc}, known currency={known}" + (f", {fx}" if fx else "") + f": returns `{got}`; {what} (`{want}`)"))
    return f, n, problems


def repo_pinned(repo):
    """Names of the module-level functions of cell.py that exist in the reference snapshot."""
    from .normalize import _pinned_functions
    try:
        return {q for q in _pinned_functions("cell.py") if "." not in q}
    except Exception:
        return set()


# ------------------------------------------------------------------------------------------------ _format_fraction
def check_format_fraction(repo):
    f = repo.func("cell.py", "_format_fraction")
    v, nf = [a.arg for a in f.args.args[:2]]
    inline = {}
    if repo.has_func("cell.py", "_float_to_fraction"):
        inline["_float_to_fraction"] = repo.func("cell.py", "_float_to_fraction")
    paths = Summarizer(inline=inline).summarize(f)
    acc_t = f"{nf}.fraction_accuracy"
    problems = []
    n = 0
    for acc in (0xFFFFFFFF, 0xFFFFFFFE, 0xFFFFFFFD, 2, 4, 8, 16, 10, 100):
        sc = {acc_t: acc}
        for fx, kind, got, p in decide(paths, sc):
            n += 1
            r = p.ret
            from .funsum import Asg, _Simp
            import copy
            r = _Simp(Asg(sc, fx)).visit(copy.deepcopy(r))
            if acc & 0xFF000000:
                ok = kind == "return" and isinstance(r, ast.Call) and call_name(r) == "_float_to_n_digit_fraction" and len(r.args) == 2 and U(r.args[0]) == v \
                    and cval(r.args[1], sc) == 0x100000000 - acc
                what = f"an accuracy with the high byte set encodes a digit count: _float_to_n_digit_fraction({v}, {0x100000000 - acc})"
            else:
                want = expect(f"_format_fraction_parts_to(int({v}), round({acc_t} * ({v} - int({v}))), {acc_t})")
                ok = kind == "return" and got == want
                what = f"a plain accuracy is the denominator: numerator = round(denominator * fractional part) (`{want}`)"
            if not ok:
                problems.append((p.node, f"fraction_accuracy={acc:#x}" + (f", {fx}" if fx else "") + f": returns `{got}`; {what}"))
    return f, n, problems


# ------------------------------------------------------------------------------------------------ _auto_units
def module_literal_asts(repo, rel="cell.py"):
    """Module-level names bound exactly once to a tuple/list display (tables a loop may walk): name -> AST."""
    tree = repo.tree(rel)
    counts = {}
    for n in ast.walk(tree):
        if isinstance(n, ast.Name) and isinstance(n.ctx, (ast.Store, ast.Del)):
            counts[n.id] = counts.get(n.id, 0) + 1
    out = {}
    for n in tree.body:
        if isinstance(n, ast.Assign) and len(n.targets) == 1 and isinstance(n.targets[0], ast.Name) and counts.get(n.targets[0].id) == 1 and isinstance(n.value, (ast.Tuple, ast.List)):
            out[n.targets[0].id] = n.value
    return out


def check_auto_units(repo):
    """Automatic duration units: the largest unit by magnitude thresholds, the smallest by divisibility, never finer
    than... coarser than the largest.  The summarised function is evaluated at every threshold boundary."""
    import math
    f = repo.func("cell.py", "_auto_units")
    v, nf = [a.arg for a in f.args.args[:2]]
    C = repo.consts
    U_ = {k.split(".")[1]: C[k] for k in C if k.startswith("DurationUnits.")}
    if not {"WEEK", "DAY", "HOUR", "MINUTE", "SECOND", "MILLISECOND"} <= set(U_):
        raise AnalysisError("DurationUnits members not found in constants.py")
    paths = Summarizer(consts=module_literal_asts(repo)).summarize(f)
    base = {k: val for k, val in C.items() if isinstance(val, (int, float)) and not isinstance(val, bool)}
    W, D, H = C["SECONDS_IN_WEEK"], C["SECONDS_IN_DAY"], C["SECONDS_IN_HOUR"]
    values = [0, 0.25, 0.999, 1, 1.5, 59, 59.5, 60, 61, 120, 3599, H, H + 1, H + 60, 2 * H, D - 1, D, D + 1, D + 60, D + H, 2 * D, W - 1, W, W + 1, W + 60, W + H, W + D, 2 * W, 2 * W + 0.5, -0.5, -90, -H, -W]
    problems = []
    n = 0
    for val in values:
        for nf_small in (U_["WEEK"], U_["SECOND"], U_["MILLISECOND"]):
            sc = {**base, v: val, f"math.floor({v})": math.floor(val), f"floor({v})": math.floor(val), f"int({v})": int(val),
                  f"{nf}.duration_unit_smallest": nf_small, f"{nf}.duration_unit_largest": U_["WEEK"]}
            if val == 0:
                want = (U_["DAY"], U_["DAY"])
            else:
                largest = U_["WEEK"] if val >= W else U_["DAY"] if val >= D else U_["HOUR"] if val >= H else U_["MINUTE"] if val >= 60 else U_["SECOND"] if val >= 1 else U_["MILLISECOND"]
                if math.floor(val) != val:
                    small = U_["MILLISECOND"]
                elif val % 60:
                    small = U_["SECOND"]
                elif val % H:
                    small = U_["MINUTE"]
                elif val % D:
                    small = U_["HOUR"]
                elif val % W:
                    small = U_["DAY"]
                else:
                    small = nf_small
                want = (max(small, largest), largest)
            for fx, kind, got, p in decide(paths, sc):
                n += 1
                from .funsum import Asg, _Simp
                import copy
                r = _Simp(Asg(sc, fx)).visit(copy.deepcopy(funsum._strip(p.ret)))
                gv = cval(r, sc)
                if kind != "return" or gv != want:
                    names = {val_: k for k, val_ in U_.items()}
                    show = (lambda t: tuple(names.get(x, x) for x in t) if isinstance(t, tuple) else got)
                    problems.append((p.node, f"duration of {val} s" + (f", {fx}" if fx else "") + f": (smallest, largest) = {show(gv)} instead of {show(want)}"))
    return f, n, problems

"""Abstract byte layout of small bytes-building expressions (E7 helper).

``layout(expr)`` returns a list of abstract bytes for expressions built from bytes literals,
``struct.pack(fmt, ...)``, ``int.to_bytes``, concatenation and constant slicing, or ``None`` when
the expression is outside that language.  An abstract byte is ``("const", v)``,
``("int", text, k)`` = byte k (little-endian index) of the integer expression ``text``,
``("src", name, i)`` = byte i of the bytes variable ``name``, or ``("pad",)``.

``int_weights(expr)`` reads ``unpack(fmt, <layout>)[0]`` / ``int.from_bytes(<layout>, order)`` and
returns {abstract byte: weight} for the decoded integer.
"""

from __future__ import annotations

import ast

from .core import U, call_name, last_attr, try_const

_SIZES = {"B": 1, "b": 1, "H": 2, "h": 2, "I": 4, "i": 4, "L": 4, "l": 4, "Q": 8, "q": 8}


def _parse_fmt(fmt: str):
    order = "<"
    if fmt and fmt[0] in "<>=!@":
        order = ">" if fmt[0] in ">!" else "<"
        if fmt[0] in "=@":
            order = "<"
        fmt = fmt[1:]
    items = []
    num = ""
    for ch in fmt:
        if ch.isdigit():
            num += ch
            continue
        n = int(num) if num else 1
        num = ""
        if ch == "x":
            items += [("x", 1)] * n
        elif ch in _SIZES:
            items += [(ch, _SIZES[ch])] * n
        elif ch == " ":
            continue
        else:
            return None
    return order, items


def layout(expr, env=None, src_lens=None):
    """Abstract bytes of a bytes-valued expression, or None."""
    env = env or {}
    src_lens = src_lens or {}
    v = try_const(expr, env)
    if isinstance(v, (bytes, bytearray)):
        return [("const", b) for b in v]
    if isinstance(expr, ast.BinOp) and isinstance(expr.op, ast.Add):
        a, b = layout(expr.left, env, src_lens), layout(expr.right, env, src_lens)
        if a is None or b is None:
            return None
        return a + b
    if isinstance(expr, ast.Call):
        name = last_attr(expr.func)
        if name in ("bytes", "bytearray") and len(expr.args) == 1:
            n = try_const(expr.args[0], env)
            if isinstance(n, int):
                return [("const", 0)] * n
            return layout(expr.args[0], env, src_lens)
        if name == "pack" and expr.args:
            fmt = try_const(expr.args[0], env)
            if not isinstance(fmt, str):
                return None
            p = _parse_fmt(fmt)
            if p is None:
                return None
            order, items = p
            out = []
            args = list(expr.args[1:])
            for code, size in items:
                if code == "x":
                    out.append(("const", 0))
                    continue
                if not args:
                    return None
                a = args.pop(0)
                c = try_const(a, env)
                if isinstance(c, int) and not isinstance(c, bool):
                    bs = [("const", (c >> (8 * k)) & 0xFF) for k in range(size)]
                else:
                    bs = [("int", U(a), k) for k in range(size)]
                if order == ">":
                    bs = list(reversed(bs))
                out += bs
            return out
        if name == "to_bytes" and isinstance(expr.func, ast.Attribute) and expr.args:
            n = try_const(expr.args[0], env)
            order = try_const(expr.args[1], env) if len(expr.args) > 1 else None
            for kw in expr.keywords:
                if kw.arg == "byteorder":
                    order = try_const(kw.value, env)
                if kw.arg == "length":
                    n = try_const(kw.value, env)
            if isinstance(n, int) and order in ("little", "big"):
                bs = [("int", U(expr.func.value), k) for k in range(n)]
                return bs if order == "little" else list(reversed(bs))
        return None
    if isinstance(expr, ast.Subscript) and isinstance(expr.slice, ast.Slice):
        sl = expr.slice
        lo = try_const(sl.lower, env) if sl.lower is not None else 0
        hi = try_const(sl.upper, env) if sl.upper is not None else None
        rel = src_lens.get(("base", expr.value.id)) if isinstance(expr.value, ast.Name) else None
        if rel is not None and sl.step is None and sl.lower is not None and sl.upper is not None:
            # a window at a symbolic cursor: ``data[pos + 1 : pos + 4]`` with ("base", "data") -> the linear form of ``pos``
            from .linear import lin as _lin
            a, b = _lin(sl.lower, env), _lin(sl.upper, env)
            if a is not None and b is not None and (a - rel).is_const() and (b - rel).is_const():
                lo, hi = (a - rel).c, (b - rel).c
                if 0 <= lo <= hi:
                    return [("src", expr.value.id, i) for i in range(lo, hi)]
        if sl.step is not None or not isinstance(lo, int) or (hi is not None and not isinstance(hi, int)):
            return None
        base = layout(expr.value, env, src_lens)
        if base is not None:
            return base[lo:hi]
        if isinstance(expr.value, ast.Name):
            n = src_lens.get(expr.value.id)
            if hi is None:
                if n is None:
                    return None
                hi = n
            return [("src", expr.value.id, i) for i in range(lo, hi)]
        return None
    if isinstance(expr, ast.Name) and expr.id in src_lens:
        return [("src", expr.id, i) for i in range(src_lens[expr.id])]
    return None


def int_weights(expr, env=None, src_lens=None):
    """{abstract byte: weight} of an integer decoded from bytes, or None."""
    env = env or {}
    e = expr
    idx = None
    if isinstance(e, ast.Subscript) and not isinstance(e.slice, ast.Slice):
        idx = try_const(e.slice, env)
        e = e.value
    if isinstance(e, ast.Call):
        name = last_attr(e.func)
        if name == "unpack" and len(e.args) == 2:
            fmt = try_const(e.args[0], env)
            p = _parse_fmt(fmt) if isinstance(fmt, str) else None
            lay = layout(e.args[1], env, src_lens)
            if p is None or lay is None:
                return None
            order, items = p
            if sum(s for _, s in items) != len(lay):
                return None
            pos = 0
            k = 0
            for code, size in items:
                chunk = lay[pos : pos + size]
                pos += size
                if code == "x":
                    continue
                if k == (idx or 0):
                    if order == ">":
                        chunk = list(reversed(chunk))
                    return {b: 256**j for j, b in enumerate(chunk) if b != ("const", 0)}
                k += 1
            return None
        if name == "from_bytes" and e.args:
            lay = layout(e.args[0], env, src_lens)
            order = try_const(e.args[1], env) if len(e.args) > 1 else None
            for kw in e.keywords:
                if kw.arg == "byteorder":
                    order = try_const(kw.value, env)
            if lay is None or order not in ("little", "big"):
                return None
            if order == "big":
                lay = list(reversed(lay))
            return {b: 256**j for j, b in enumerate(lay) if b != ("const", 0)}
    return None

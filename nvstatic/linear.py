"""E4: guard facts — linear integer facts established by raising guards, loops and
assignments, propagated forward over the CFG, with syntactic entailment.

A fact is a linear form ``c0 + sum(ci * sym_i)`` asserted ``>= 0`` over integer-valued
symbols (names, ``self.attr`` chains, ``len(x)``).  Facts die when one of their symbols is
assigned.  Entailment of a goal is: the goal is a non-negative constant plus the sum of
at most three known facts (and the axioms ``len(x) >= 0``).
"""

from __future__ import annotations

import ast
import itertools
import re

from . import cfg as cfgmod
from .core import U, dotted, try_const

# --------------------------------------------------------------------------- linear forms


class Lin:
    __slots__ = ("c", "t")

    def __init__(self, c=0, t=None):
        self.c = c
        self.t = {k: v for k, v in (t or {}).items() if v != 0}

    def __add__(self, o):
        t = dict(self.t)
        for k, v in o.t.items():
            t[k] = t.get(k, 0) + v
        return Lin(self.c + o.c, t)

    def __sub__(self, o):
        return self + o.scale(-1)

    def scale(self, k):
        return Lin(self.c * k, {s: v * k for s, v in self.t.items()})

    def key(self):
        return (self.c, tuple(sorted(self.t.items())))

    def syms(self):
        return set(self.t)

    def is_const(self):
        return not self.t

    def __repr__(self):
        parts = [str(self.c)] if self.c or not self.t else []
        for s, v in sorted(self.t.items()):
            parts.append(("+" if v > 0 else "-") + (str(abs(v)) + "*" if abs(v) != 1 else "") + s)
        return " ".join(parts) + " >= 0"

    def subst(self, sym, repl: "Lin"):
        if sym not in self.t:
            return self
        k = self.t[sym]
        rest = Lin(self.c, {s: v for s, v in self.t.items() if s != sym})
        return rest + repl.scale(k)


def lin(node, env=None) -> Lin | None:
    """Linear form of an integer expression, or None if it is not linear."""
    env = env or {}
    if isinstance(node, ast.Constant):
        if isinstance(node.value, bool):
            return None
        if isinstance(node.value, int):
            return Lin(node.value)
        return None
    if isinstance(node, ast.Name):
        if node.id in env and isinstance(env[node.id], int) and not isinstance(env[node.id], bool):
            return Lin(env[node.id])
        return Lin(0, {node.id: 1})
    if isinstance(node, ast.Attribute):
        d = dotted(node)
        if d is None:
            return Lin(0, {U(node): 1})
        if d in env and isinstance(env[d], int):
            return Lin(env[d])
        return Lin(0, {d: 1})
    if isinstance(node, ast.UnaryOp) and isinstance(node.op, ast.USub):
        a = lin(node.operand, env)
        return a.scale(-1) if a is not None else None
    if isinstance(node, ast.BinOp):
        if isinstance(node.op, (ast.Add, ast.Sub)):
            a, b = lin(node.left, env), lin(node.right, env)
            if a is None or b is None:
                return None
            return a + b if isinstance(node.op, ast.Add) else a - b
        if isinstance(node.op, ast.Mult):
            a, b = lin(node.left, env), lin(node.right, env)
            if a is not None and b is not None:
                if a.is_const():
                    return b.scale(a.c)
                if b.is_const():
                    return a.scale(b.c)
            return None
        v = try_const(node, env)
        if isinstance(v, int):
            return Lin(v)
        return None
    if isinstance(node, ast.Call):
        f = node.func
        if isinstance(f, ast.Name) and f.id == "len" and len(node.args) == 1:
            return Lin(0, {f"len({U(node.args[0])})": 1})
        if isinstance(f, ast.Name) and f.id == "int" and len(node.args) == 1:
            return lin(node.args[0], env)
        return None
    if isinstance(node, ast.Subscript) and not isinstance(node.slice, ast.Slice):
        return Lin(0, {U(node): 1})
    if isinstance(node, ast.BoolOp) and isinstance(node.op, ast.Or) and len(node.values) == 2:
        a, b = node.values
        if isinstance(b, ast.Constant) and b.value == 0 and not isinstance(b.value, bool) and isinstance(a, (ast.Name, ast.Attribute)):
            # ``x or 0`` for x: int | None  -- equals x when x is not None, 0 when x is None
            return Lin(0, {f"({U(a)} or 0)": 1})
    return None


# --------------------------------------------------------------------------- conditions -> facts


def _cmp_facts(left, op, right, env):
    a, b = lin(left, env), lin(right, env)
    if a is None or b is None:
        return []
    if isinstance(op, ast.Lt):
        return [b - a - Lin(1)]
    if isinstance(op, ast.LtE):
        return [b - a]
    if isinstance(op, ast.Gt):
        return [a - b - Lin(1)]
    if isinstance(op, ast.GtE):
        return [a - b]
    if isinstance(op, ast.Eq):
        return [a - b, b - a]
    return []


_NEG = {ast.Lt: ast.GtE, ast.LtE: ast.Gt, ast.Gt: ast.LtE, ast.GtE: ast.Lt, ast.Eq: ast.NotEq, ast.NotEq: ast.Eq}


def facts_if(cond, truth: bool, env=None) -> list:
    """Facts known when ``cond`` evaluated to ``truth``. Each fact: Lin (>=0) or a tagged tuple."""
    env = env or {}
    if isinstance(cond, ast.UnaryOp) and isinstance(cond.op, ast.Not):
        return facts_if(cond.operand, not truth, env)
    if isinstance(cond, ast.BoolOp):
        conj = isinstance(cond.op, ast.And)
        if conj == truth:
            # (a and b) true  /  (a or b) false: every operand has that truth value
            out = []
            for v in cond.values:
                out += facts_if(v, truth, env)
            return out
        if conj and not truth and len(cond.values) == 2:
            # not (A and X): if A is later known to hold, X is false.  Only None-tests are
            # supported as premise A (``v is not None and (...)``).
            prem = facts_if(cond.values[0], True, env)
            prem = [p for p in prem if not isinstance(p, Lin) and p[0] in ("notnone", "none")]
            if len(prem) == 1:
                return [("cond", prem[0], _fact_key(x), x) for x in facts_if(cond.values[1], False, env)]
        return []
    if isinstance(cond, ast.Compare):
        out = []
        left = cond.left
        if len(cond.ops) > 1 and not truth:
            return []
        for op, right in zip(cond.ops, cond.comparators):
            o = op
            if not truth:
                neg = _NEG.get(type(op))
                if neg is None:
                    if isinstance(op, ast.Is):
                        o = ast.IsNot()
                    elif isinstance(op, ast.IsNot):
                        o = ast.Is()
                    elif isinstance(op, ast.In):
                        o = ast.NotIn()
                    elif isinstance(op, ast.NotIn):
                        o = ast.In()
                    else:
                        left = right
                        continue
                else:
                    o = neg()
            if isinstance(o, (ast.Is, ast.IsNot)) and isinstance(right, ast.Constant) and right.value is None:
                out.append(("none" if isinstance(o, ast.Is) else "notnone", U(left)))
            elif isinstance(o, (ast.In, ast.NotIn)):
                out.append(("in" if isinstance(o, ast.In) else "notin", U(left), U(right)))
            elif isinstance(o, ast.NotEq):
                out.append(("ne", U(left), U(right)))
                la, lb = lin(left, env), lin(right, env)
                if la is not None and lb is not None:
                    out.append(("nez", (la - lb).key()))
            else:
                out += _cmp_facts(left, o, right, env)
                if isinstance(o, ast.Eq):
                    out.append(("eq", U(left), U(right)))
            left = right
        return out
    if isinstance(cond, ast.Call) and isinstance(cond.func, ast.Name) and cond.func.id == "isinstance":
        if len(cond.args) == 2:
            return [("isinstance" if truth else "notinstance", U(cond.args[0]), U(cond.args[1]))]
    # truthiness of a name / attribute / call
    txt = U(cond)
    out = [("truthy" if truth else "falsy", txt)]
    if truth and isinstance(cond, (ast.Name, ast.Attribute, ast.Subscript)):
        # a truthy sequence is non-empty (only used for len-symbols, harmless otherwise)
        out.append(Lin(-1, {f"len({txt})": 1}))
    if not truth and isinstance(cond, (ast.Name, ast.Attribute, ast.Subscript)):
        out.append(("emptyor0", txt))
    return out


def _fact_key(f):
    if isinstance(f, Lin):
        return f.key()
    if f[0] == "cond":
        return f[:3]
    return f


def _fact_syms(f) -> set:
    if isinstance(f, Lin):
        return f.syms()
    if f[0] == "nez":
        return {s for s, _ in f[1][1]}
    if f[0] == "cond":
        return set(f[1][1:]) | _fact_syms(f[3])
    return set(f[1:])


_TOKEN = re.compile(r"[A-Za-z_][A-Za-z_0-9]*(?:\.[A-Za-z_][A-Za-z_0-9]*)*")


def _mentions(sym_text: str, target: str) -> bool:
    """Does the symbol text mention the assigned target (as a whole dotted token or a prefix)?"""
    for m in _TOKEN.finditer(sym_text):
        tok = m.group(0)
        if tok == target or tok.startswith(target + ".") or target.startswith(tok + ".") and tok == target:
            return True
    return False


class Facts:
    """An immutable-ish set of facts."""

    def __init__(self, items=None):
        self.d = {}
        for f in items or []:
            self.d[_fact_key(f)] = f

    def copy(self):
        n = Facts()
        n.d = dict(self.d)
        return n

    def add(self, f):
        if not isinstance(f, Lin) and f[0] == "cond":
            if f[1] in self.d:
                self.add(f[3])
                return
            self.d[_fact_key(f)] = f
            return
        self.d[_fact_key(f)] = f
        if not isinstance(f, Lin) and f[0] in ("notnone", "none"):
            # promote conditional facts whose premise is now known
            for k, c in list(self.d.items()):
                if not isinstance(c, Lin) and c[0] == "cond" and c[1] == f:
                    self.d[_fact_key(c[3])] = c[3]

    def kill(self, target: str):
        for k in [k for k, f in self.d.items() if any(_mentions(s, target) for s in _fact_syms(f))]:
            del self.d[k]

    def meet(self, other: "Facts") -> "Facts":
        """Join of two path states: a fact survives if it is present on one side and entailed by the other.
        When the two sides disagree on the None-ness of a variable, facts of one side only are kept as
        conditional facts on that None-ness (discharged when a later test re-establishes it)."""
        n = Facts()
        for a, b in ((self, other), (other, self)):
            for k, f in a.d.items():
                if k in b.d:
                    n.d[k] = f
                elif isinstance(f, Lin) and len(b.d) <= 40 and b.entails(f):
                    n.d[k] = f
        # None-ness split
        for a, b in ((self, other), (other, self)):
            for tag, opp in (("notnone", "none"), ("none", "notnone")):
                for t in a.tagged(tag):
                    v = t[1]
                    if (opp, v) in b.d:
                        for k, f in a.d.items():
                            if k in n.d or k == t:
                                continue
                            if isinstance(f, Lin) or (not isinstance(f, Lin) and f[0] not in ("cond",)):
                                c = ("cond", (tag, v), _fact_key(f), f)
                                n.d[_fact_key(c)] = c
        return n

    def same(self, other) -> bool:
        return set(self.d) == set(other.d)

    def lins(self):
        return [f for f in self.d.values() if isinstance(f, Lin)]

    def tagged(self, tag):
        return [f for f in self.d.values() if not isinstance(f, Lin) and f[0] == tag]

    def has(self, *tagged) -> bool:
        return tuple(tagged) in self.d

    def entails(self, goal: Lin, extra_axioms=()) -> bool:
        """goal >= 0 follows from at most three facts plus len(.) >= 0 axioms."""
        if goal is None:
            return False
        if goal.is_const():
            return goal.c >= 0
        pool = list(self.lins()) + list(extra_axioms)
        # axioms for ``(x or 0)`` symbols from None-ness facts
        syms_all = set(goal.syms())
        for f in pool:
            syms_all |= f.syms()
        for s in syms_all:
            if s.startswith("(") and s.endswith(" or 0)"):
                x = s[1:-6]
                if ("notnone", x) in self.d:
                    pool.append(Lin(0, {s: 1, x: -1}))
                    pool.append(Lin(0, {s: -1, x: 1}))
                elif ("none", x) in self.d:
                    pool.append(Lin(0, {s: 1}))
                    pool.append(Lin(0, {s: -1}))
        for s in syms_all:
            if s.startswith("len("):
                pool.append(Lin(0, {s: 1}))
        for t in self.tagged("nez"):
            for s, _ in t[1][1]:
                if s.startswith("len("):
                    pool.append(Lin(0, {s: 1}))
        # e != 0 together with e >= 0 gives e >= 1 (integers)
        keys = {f.key() for f in pool}
        for t in self.tagged("nez"):
            c, terms = t[1]
            e = Lin(c, dict(terms))
            if e.key() in keys:
                pool.append(e - Lin(1))
            ne = e.scale(-1)
            if ne.key() in keys:
                pool.append(ne - Lin(1))
        for s in goal.syms():
            if s.startswith("len("):
                pool.append(Lin(0, {s: 1}))
        for f in list(pool):
            for s in f.syms():
                if s.startswith("len("):
                    pool.append(Lin(0, {s: 1}))
        # dedupe
        seen = {}
        for f in pool:
            seen[f.key()] = f
        pool = list(seen.values())
        # only facts sharing symbols transitively with the goal matter
        for r in (1, 2, 3):
            for combo in itertools.combinations(pool, r):
                rest = goal
                for f in combo:
                    rest = rest - f
                if rest.is_const() and rest.c >= 0:
                    return True
        return False

    def __repr__(self):
        return "{" + "; ".join(repr(f) if isinstance(f, Lin) else str(f) for f in self.d.values()) + "}"


# --------------------------------------------------------------------------- forward analysis


class GuardAnalysis:
    """Forward must-analysis of facts over a function's CFG.

    ``call_writes(call) -> set[str] | None``: dotted targets (e.g. ``self.num_rows``) a call may
    assign; ``None`` = unknown (kills every ``self.`` fact).
    ``loop_summary(for_node) -> list[Lin]``: facts that hold after a recognised loop.
    """

    def __init__(self, func, env=None, call_writes=None, loop_summary=None, entry_facts=()):
        self.func = func
        self.env = env or {}
        self.g = cfgmod.build(func)
        self.call_writes = call_writes or (lambda call: set())
        self.loop_summary = loop_summary or (lambda node, facts: [])
        self.entry_facts = list(entry_facts)
        self.IN: dict = {}
        self._run()

    # transfer along an edge out of node n with label lab
    def _out(self, nid, lab, facts: Facts) -> Facts:
        node = self.g.nodes[nid]
        f = facts.copy()
        a = node.ast
        if node.kind == "test":
            # named expressions in the test assign before branching
            self._kill_assigned_in_expr(a.test, f)
            if lab in ("T", "F"):
                for x in facts_if(a.test, lab == "T", self.env):
                    f.add(x)
            self._apply_calls(a.test, f)
            return f
        if node.kind == "iter":
            tgt_names = [U(t) for t in _targets(a.target)]
            for t in tgt_names:
                f.kill(t)
            self._apply_calls(a.iter, f)
            if lab == "iter":
                r = _range_args(a.iter)
                if r is not None and isinstance(a.target, ast.Name):
                    lo, hi = r
                    v = Lin(0, {a.target.id: 1})
                    lo_l, hi_l = lin(lo, self.env), lin(hi, self.env)
                    if lo_l is not None:
                        f.add(v - lo_l)
                    if hi_l is not None:
                        f.add(hi_l - v - Lin(1))
            if lab in ("done", "break"):
                for x in self.loop_summary(a, facts):
                    for s in x.syms():
                        pass
                    f.add(x)
            return f
        if node.kind in ("with", "handler", "entry"):
            return f
        if node.kind == "stmt":
            if lab == "exc":
                # the statement may have been abandoned half-way: keep only pre-state facts
                # minus what it may assign
                self._assign_effects(a, f, add=False)
                return f
            self._assign_effects(a, f, add=True)
            return f
        return f

    def _kill_assigned_in_expr(self, expr, f: Facts):
        for n in ast.walk(expr):
            if isinstance(n, ast.NamedExpr) and isinstance(n.target, ast.Name):
                f.kill(n.target.id)

    def _apply_calls(self, expr, f: Facts):
        for n in ast.walk(expr):
            if isinstance(n, ast.Call):
                w = self.call_writes(n)
                if w is None:
                    for k in [k for k, x in f.d.items() if any(s.startswith("self.") or "self." in s for s in _fact_syms(x))]:
                        del f.d[k]
                else:
                    for t in w:
                        f.kill(t)
                # mutating list methods invalidate len() facts of the receiver
                if isinstance(n.func, ast.Attribute) and n.func.attr in (
                    "append", "pop", "extend", "insert", "remove", "clear", "sort",
                ):
                    f.kill(U(n.func.value))

    def _assign_effects(self, s, f: Facts, add: bool):
        if isinstance(s, (ast.Assign, ast.AnnAssign)):
            value = s.value
            targets = s.targets if isinstance(s, ast.Assign) else [s.target]
            if value is not None:
                self._kill_assigned_in_expr(value, f)
                self._apply_calls(value, f)
            for t in targets:
                for tt in _targets(t):
                    txt = U(tt)
                    pre = f.copy()
                    f.kill(txt)
                    if isinstance(tt, ast.Subscript):
                        # element/slice store changes len() of the container
                        f.kill(U(tt.value))
                    if add and value is not None and tt is t and isinstance(tt, (ast.Name, ast.Attribute)):
                        self._bind(txt, value, f, pre)
            return
        if isinstance(s, ast.AugAssign):
            self._apply_calls(s.value, f)
            txt = U(s.target)
            e = lin(s.value, self.env)
            tl = lin(s.target, self.env)
            if (
                add
                and e is not None
                and tl is not None
                and isinstance(s.op, (ast.Add, ast.Sub))
                and not any(_mentions(sy, txt) for sy in e.syms())
                and len(tl.t) == 1
            ):
                sym = next(iter(tl.t))
                # x_new = x_old (+/-) e  =>  x_old = x_new (-/+) e
                repl = Lin(0, {sym: 1}) - e if isinstance(s.op, ast.Add) else Lin(0, {sym: 1}) + e
                newd = {}
                for k, x in f.d.items():
                    if isinstance(x, Lin):
                        if sym in x.t:
                            x2 = x.subst(sym, repl)
                            newd[x2.key()] = x2
                        elif any(_mentions(sy, txt) for sy in x.syms()):
                            continue
                        else:
                            newd[k] = x
                    else:
                        if any(_mentions(sy, txt) for sy in _fact_syms(x)):
                            continue
                        newd[k] = x
                f.d = newd
            else:
                f.kill(txt)
            return
        if isinstance(s, ast.Delete):
            for t in s.targets:
                if isinstance(t, ast.Subscript):
                    f.kill(U(t.value))
                else:
                    f.kill(U(t))
            return
        if isinstance(s, (ast.Expr, ast.Return, ast.Raise)):
            v = getattr(s, "value", None) or getattr(s, "exc", None)
            if v is not None:
                self._kill_assigned_in_expr(v, f)
                self._apply_calls(v, f)
            return
        if isinstance(s, (ast.FunctionDef, ast.ClassDef)):
            f.kill(s.name)

    def _bind(self, txt, value, f: Facts, pre: Facts):
        """Facts from ``txt = value``."""
        if any(_mentions(U(n), txt) for n in ast.walk(value) if isinstance(n, (ast.Name, ast.Attribute))):
            # self-referential: only the conditional form ``x = E if x is None else x`` is understood
            if not isinstance(value, ast.IfExp):
                return
        v = Lin(0, {txt: 1})
        e = lin(value, self.env)
        if e is not None and txt not in e.syms():
            f.add(v - e)
            f.add(e - v)
            return
        if isinstance(value, ast.Constant) and value.value is None:
            f.add(("none", txt))
            return
        if isinstance(value, ast.IfExp):
            # x = A if c else B : keep the facts about x that hold in both arms
            ctxs = []
            arms = ((value.body, True), (value.orelse, False))
            for arm, truth in arms:
                c = pre.copy()
                for x in facts_if(value.test, truth, self.env):
                    c.add(x)
                if not (isinstance(arm, (ast.Name, ast.Attribute)) and U(arm) == txt):
                    # the new value is not the old one: facts about the old value do not carry over
                    c.kill(txt)
                    al = lin(arm, self.env)
                    if al is not None and txt not in al.syms():
                        c.add(v - al)
                        c.add(al - v)
                    elif isinstance(arm, ast.Constant) and arm.value is None:
                        c.add(("none", txt))
                    if _arm_not_none(arm) or (al is not None):
                        c.add(("notnone", txt))
                ctxs.append(c)
            cands = []
            for c in ctxs:
                for g in c.lins():
                    if txt in g.t:
                        cands.append(g)
            for g in cands:
                if all(c.entails(g) for c in ctxs):
                    f.add(g)
            for tag in ("notnone", "none"):
                if all((tag, txt) in c.d for c in ctxs):
                    f.add((tag, txt))
            return
        if isinstance(value, ast.Subscript) and isinstance(value.slice, ast.Slice):
            # h = d[:k]  => len(h) <= k ; len(h) <= len(d); and len(d) >= 1 => len(h) >= 1 (k >= 1)
            sl = value.slice
            base = U(value.value)
            lh = Lin(0, {f"len({txt})": 1})
            if sl.lower is not None and sl.upper is not None and sl.step is None:
                # h = d[a:b]: len(h) <= b - a (a constant window at a cursor, ``d[pos : pos + 4]``) and len(h) <= len(d)
                a_, b_ = lin(sl.lower, self.env), lin(sl.upper, self.env)
                if a_ is not None and b_ is not None and (b_ - a_).is_const() and (b_ - a_).c >= 0:
                    f.add((b_ - a_) - lh)
                    f.add(Lin(0, {f"len({base})": 1}) - lh)
            if sl.lower is None and sl.upper is not None and sl.step is None:
                k = lin(sl.upper, self.env)
                if k is not None and k.is_const() and k.c >= 1:
                    f.add(k - lh)
                    f.add(Lin(0, {f"len({base})": 1}) - lh)
                    if pre.entails(Lin(-1, {f"len({base})": 1})):
                        f.add(lh - Lin(1))
                    if pre.entails(Lin(-k.c, {f"len({base})": 1})):
                        f.add(lh - k)
            return

    def _run(self):
        """Round-robin dataflow: IN[n] is recomputed from the current OUT of every already-visited incoming edge."""
        g = self.g
        OUT = {}
        IN = {g.entry: Facts(self.entry_facts)}
        work = [g.entry]
        queued = {g.entry}
        iters = 0
        while work:
            iters += 1
            if iters > 20000:
                break
            n = work.pop(0)
            queued.discard(n)
            if n != g.entry:
                ins = [OUT[(p, n, lab)] for p, lab in g.pred[n] if (p, n, lab) in OUT]
                if not ins:
                    continue
                cur = ins[0]
                for x in ins[1:]:
                    cur = cur.meet(x)
                if n in IN and cur.same(IN[n]) and all((n, m, lab) in OUT for m, lab in g.succ[n]):
                    continue
                IN[n] = cur
            fin = IN[n]
            for m, lab in g.succ[n]:
                out = self._out(n, lab, fin)
                key = (n, m, lab)
                if key not in OUT or not OUT[key].same(out):
                    OUT[key] = out
                    if m not in queued:
                        work.append(m)
                        queued.add(m)
        self.IN = IN

    def facts_at(self, stmt_or_expr) -> Facts | None:
        """Facts holding just before the statement that contains the given node executes."""
        nid = self.g.node_of(stmt_or_expr)
        if nid is None:
            return None
        base = self.IN.get(nid)
        if base is None:
            return None
        base = base.copy()
        # refine with conditions that dominate the expression inside its own statement
        # (IfExp tests, ``a and b`` left operands, comprehension ifs)
        node = stmt_or_expr
        stmt_ast = self.g.nodes[nid].ast
        child = node
        p = getattr(node, "_parent", None)
        while p is not None and child is not stmt_ast:
            if isinstance(p, ast.IfExp):
                if child is p.body:
                    for x in facts_if(p.test, True, self.env):
                        base.add(x)
                elif child is p.orelse:
                    for x in facts_if(p.test, False, self.env):
                        base.add(x)
            elif isinstance(p, ast.BoolOp):
                idx = p.values.index(child) if child in p.values else -1
                for prev in p.values[: max(idx, 0)]:
                    for x in facts_if(prev, isinstance(p.op, ast.And), self.env):
                        base.add(x)
            elif isinstance(p, ast.comprehension):
                pass
            elif isinstance(p, (ast.ListComp, ast.GeneratorExp, ast.SetComp, ast.DictComp)):
                for gen in p.generators:
                    if child is not gen:
                        r = _range_args(gen.iter)
                        if r is not None and isinstance(gen.target, ast.Name):
                            base.kill(gen.target.id)
                            v = Lin(0, {gen.target.id: 1})
                            lo_l, hi_l = lin(r[0], self.env), lin(r[1], self.env)
                            if lo_l is not None:
                                base.add(v - lo_l)
                            if hi_l is not None:
                                base.add(hi_l - v - Lin(1))
                        else:
                            for t in _targets(gen.target):
                                base.kill(U(t))
                        for cond in gen.ifs:
                            for x in facts_if(cond, True, self.env):
                                base.add(x)
            child = p
            p = getattr(p, "_parent", None)
        return base


def _arm_not_none(arm) -> bool:
    if isinstance(arm, ast.Constant):
        return arm.value is not None
    return isinstance(arm, (ast.BinOp, ast.JoinedStr, ast.List, ast.Tuple, ast.Dict))


def _targets(t):
    if isinstance(t, (ast.Tuple, ast.List)):
        for e in t.elts:
            yield from _targets(e)
    elif isinstance(t, ast.Starred):
        yield from _targets(t.value)
    else:
        yield t


def _range_args(it):
    """(lo, hi) AST nodes for ``range(hi)`` / ``range(lo, hi)`` with unit step, else None."""
    if isinstance(it, ast.Call) and isinstance(it.func, ast.Name) and it.func.id == "range":
        if len(it.args) == 1:
            return (ast.Constant(0), it.args[0])
        if len(it.args) == 2:
            return (it.args[0], it.args[1])
    return None

"""Translation validation: is a function of the current tree provably equivalent to its confirmed reference version?

Every rule of this package was confirmed by reading against one version of the source (the *reference*, kept under
``nvstatic/reference/``).  A later edit that provably leaves a function's behaviour unchanged cannot break an obligation
the reference satisfies, whatever the edit does to the spelling the rule looked at.  This module decides a conservative
equivalence between two versions of a function:

* both are summarised into a *canonical effect sequence*: local names bound to side-effect free expressions are
  substituted away (renames, hoisted or inlined temporaries vanish); every impure call, store, ``del``, loop, ``try`` and
  ``with`` becomes one item in evaluation order; the value of an impure call is a positional symbol; an ``if`` whose
  branches do not leave the block is an item with two sub-sequences, an ``if`` one of whose branches leaves (``return``,
  ``raise``, ``continue``, ``break``) absorbs the rest of the block into the other branch (early return == if/else);
* every sub-expression that reads the heap (call, attribute, subscript) is stamped with the number of effects that
  precede its evaluation, so that moving it across a store or an impure call is *not* considered equal;
* two sequences are compared item by item; where the conditions differ the comparison splits on truth values of the
  condition atoms (propositional reasoning: ``if a or b: X`` == ``if a: X`` / ``if b: X``, De Morgan, nested == ``and``);
* counting loops are compared through their index domain (``while i <= n`` + increment == ``for i in range(n + 1)``;
  ``for i in range(len(s))`` using ``s[i]`` == ``for i, x in enumerate(s)``).

Anything outside this fragment is "not proven" — never "different".  The answer is used only to *discharge* alarms.
"""

from __future__ import annotations

import ast
import copy

from .core import U, call_name, try_const

PURE_FUNCS = {
    "len", "int", "float", "str", "bytes", "abs", "min", "max", "round", "sorted", "tuple", "range", "enumerate", "zip", "isinstance", "issubclass",
    "getattr", "hasattr", "bool", "repr", "ord", "chr", "divmod", "sum", "any", "all", "reversed", "frozenset", "type", "id", "callable", "format",
    "unpack", "pack", "calcsize", "ceil", "floor", "log2", "log10", "sqrt", "isfinite", "isnan", "Fraction", "Decimal", "timedelta", "datetime", "date",
    "xl_range", "xl_rowcol_to_cell", "xl_col_to_name", "xl_cell_to_rowcol", "xl_col_to_offset", "partial", "UUID", "copy", "deepcopy", "list", "dict", "set",
}
PURE_METHODS = {
    "lower", "upper", "strip", "lstrip", "rstrip", "split", "rsplit", "join", "replace", "startswith", "endswith", "get", "keys", "values", "items", "format",
    "zfill", "rjust", "ljust", "count", "index", "find", "bit_length", "total_seconds", "is_integer", "casefold", "isalpha", "isdigit", "isnumeric", "isalnum",
    "group", "groups", "HasField", "copy", "match", "fullmatch", "search", "to_bytes", "from_bytes", "as_integer_ratio", "adjusted", "scaleb", "strftime",
    "tolist", "hex", "encode", "decode", "title", "capitalize", "limit_denominator", "from_float", "ListFields", "is_dir", "is_file", "exists", "translate",
    "isoformat", "timestamp", "toordinal", "weekday", "isocalendar", "span", "start", "end", "partition", "rpartition", "splitlines", "most_common",
}
SYM = "⟦"  # ⟦ marks a canonical symbol


class NotProven(Exception):
    pass


def _is_sym(name):
    return isinstance(name, str) and name.startswith(SYM)


def _sym(text):
    return ast.Name(id=f"{SYM}{text}⟧", ctx=ast.Load())


class _Subst(ast.NodeTransformer):
    def __init__(self, env):
        self.env = env

    def visit_Name(self, node):
        if isinstance(node.ctx, ast.Load) and node.id in self.env:
            return copy.deepcopy(self.env[node.id])
        return node

    def visit_Lambda(self, node):
        a = node.args
        if a.vararg or a.kwarg or a.kwonlyargs or a.posonlyargs or a.defaults:
            raise NotProven("lambda with defaults or stars")
        depth = getattr(self, "_cdepth", 0)
        inner = dict(self.env)
        new = copy.deepcopy(node)
        for i, p in enumerate(new.args.args):
            inner[p.arg] = _sym(f"l{depth}.{i}")
            p.arg = f"{SYM}l{depth}.{i}⟧"
        sub = _Subst(inner)
        sub._cdepth = depth + 1
        new.body = sub.visit(new.body)
        return new

    def _comp(self, node):
        # comprehension variables shadow the environment and get canonical names
        targets = []
        for g in node.generators:
            targets += [n.id for n in ast.walk(g.target) if isinstance(n, ast.Name)]
        inner = dict(self.env)
        depth = getattr(self, "_cdepth", 0)
        for i, t in enumerate(dict.fromkeys(targets)):
            inner[t] = _sym(f"c{depth}.{i}")
        sub = _Subst(inner)
        sub._cdepth = depth + 1
        new = copy.copy(node)
        gens = []
        for gi, g in enumerate(node.generators):
            g2 = copy.copy(g)
            # the first iterable is evaluated in the enclosing scope
            g2.iter = (self if gi == 0 else sub).visit(copy.deepcopy(g.iter))
            g2.target = _rename_target(copy.deepcopy(g.target), inner)
            g2.ifs = [sub.visit(copy.deepcopy(i)) for i in g.ifs]
            gens.append(g2)
        new.generators = gens
        if isinstance(node, ast.DictComp):
            new.key = sub.visit(copy.deepcopy(node.key))
            new.value = sub.visit(copy.deepcopy(node.value))
        else:
            new.elt = sub.visit(copy.deepcopy(node.elt))
        return new

    visit_ListComp = visit_SetComp = visit_GeneratorExp = visit_DictComp = _comp


def _rename_target(t, mapping):
    for n in ast.walk(t):
        if isinstance(n, ast.Name) and n.id in mapping and isinstance(mapping[n.id], ast.Name):
            n.id = mapping[n.id].id
    return t


def _fresh(node):
    """Parse-fresh copy without the parent links of the Repo index."""
    if isinstance(node, ast.expr):
        return ast.parse(ast.unparse(node), mode="eval").body
    return ast.parse(ast.unparse(node)).body[0]


def _heap_reading(e):
    return any(isinstance(n, (ast.Call, ast.Attribute, ast.Subscript, ast.ListComp, ast.SetComp, ast.DictComp, ast.GeneratorExp)) for n in ast.walk(e))


class V:
    """A value kept as an AST so that conditional sub-expressions can be simplified under a truth assignment."""

    __slots__ = ("node", "_plain")

    def __init__(self, node):
        self.node = node
        self._plain = None

    def text(self, asg=None):
        if not asg:
            if self._plain is None:
                self._plain = U(self.node)
            return self._plain
        if not any(isinstance(n, ast.IfExp) for n in ast.walk(self.node)):
            return self.text(None)
        return U(_Simp(asg).visit(copy.deepcopy(self.node)))

    def __str__(self):
        return self.text(None)

    __repr__ = __str__


class _Simp(ast.NodeTransformer):
    def __init__(self, asg):
        self.asg = asg

    def visit_IfExp(self, node):
        from .symexec import bool_eval

        r = bool_eval(node.test, self.asg)
        if r is True:
            return self.visit(node.body)
        if r is False:
            return self.visit(node.orelse)
        return self.generic_visit(node)


class _BoolCanon(ast.NodeTransformer):
    """``(1 if c else 0) == 1`` -> ``c`` and the like (a conditional between two constants compared with a constant)."""

    def visit_Compare(self, node):
        self.generic_visit(node)
        if len(node.ops) == 1 and isinstance(node.ops[0], (ast.Eq, ast.NotEq)) and isinstance(node.left, ast.IfExp) \
                and isinstance(node.left.body, ast.Constant) and isinstance(node.left.orelse, ast.Constant) and isinstance(node.comparators[0], ast.Constant):
            a, b, k = node.left.body.value, node.left.orelse.value, node.comparators[0].value
            eq = isinstance(node.ops[0], ast.Eq)
            if type(a) is type(b) is type(k) and a != b:
                if (a == k) == eq and (b == k) != eq:
                    return node.left.test
                if (b == k) == eq and (a == k) != eq:
                    return ast.UnaryOp(op=ast.Not(), operand=node.left.test)
        return node


def _lift_conditionals(e, limit=6):
    """Canonical decision tree of a pure expression: conditional sub-expressions are lifted to the top and the tests
    are split in text order, so ``f(a if c else b)`` and ``f(a) if c else f(b)`` get one form."""
    from .symexec import _is_none_key, bool_atoms, bool_eval

    scoped = (ast.ListComp, ast.SetComp, ast.DictComp, ast.GeneratorExp, ast.Lambda)

    def bound(atom):
        return "⟦c" in atom or "⟦l" in atom  # mentions a comprehension or lambda variable

    nodes = {}

    def atom_nodes(t):
        """atom text -> AST of the atom (the positive form for ``not in`` / ``!=`` / ``is not``)."""
        if isinstance(t, ast.BoolOp):
            for v in t.values:
                atom_nodes(v)
        elif isinstance(t, ast.UnaryOp) and isinstance(t.op, ast.Not):
            atom_nodes(t.operand)
        elif isinstance(t, ast.IfExp):
            atom_nodes(t.test)
            atom_nodes(t.body)
            atom_nodes(t.orelse)
        elif isinstance(t, ast.Compare) and len(t.ops) == 1 and isinstance(t.ops[0], (ast.NotIn, ast.NotEq, ast.IsNot)):
            pos = {ast.NotIn: ast.In, ast.NotEq: ast.Eq, ast.IsNot: ast.Is}[type(t.ops[0])]()
            n = ast.Compare(left=t.left, ops=[pos], comparators=t.comparators)
            nodes.setdefault(U(n), n)
        elif isinstance(t, ast.Compare) and len(t.ops) == 1 and isinstance(t.comparators[0], ast.Constant) and t.comparators[0].value is None and isinstance(t.ops[0], ast.Is):
            nodes.setdefault(_is_none_key(t.left), t)
        else:
            nodes.setdefault(U(t), t)

    def tests(node, acc):
        if isinstance(node, ast.IfExp):
            ats = bool_atoms(node.test)
            if not any(bound(a) for a in ats):
                acc |= ats
                atom_nodes(node.test)
        for ch in ast.iter_child_nodes(node):
            tests(ch, acc)

    atoms = set()
    tests(e, atoms)
    if not atoms or len(atoms) > limit:
        return e
    order = sorted(atoms)

    class S(ast.NodeTransformer):
        def __init__(self, asg):
            self.asg = asg

        def visit_IfExp(self, node):
            r = bool_eval(node.test, self.asg)
            if r is None:
                return self.generic_visit(node)
            return self.visit(node.body if r else node.orelse)

    def build(i, asg):
        cur = S(asg).visit(copy.deepcopy(e))
        rest = set()
        tests(cur, rest)
        rest = [a for a in order if a in rest and a not in asg]
        if not rest:
            return cur
        a = rest[0]
        t, f = build(i + 1, {**asg, a: True}), build(i + 1, {**asg, a: False})
        if U(t) == U(f):
            return t
        test = nodes.get(a)
        if test is None:
            return cur
        return ast.IfExp(test=copy.deepcopy(test), body=t, orelse=f)

    return build(0, {})


class _FStrCanon(ast.NodeTransformer):
    """``f"{a}{'='}{b}"`` -> ``f"{a}={b}"``: constant pieces are literal text; adjacent literals are joined;
    ``{str(x)}`` without a format spec is ``{x}``."""

    def visit_JoinedStr(self, node):
        self.generic_visit(node)
        vals = []
        for v in node.values:
            if isinstance(v, ast.FormattedValue) and v.conversion == -1 and v.format_spec is None:
                if isinstance(v.value, ast.Constant) and isinstance(v.value.value, str):
                    v = ast.Constant(v.value.value)
                elif isinstance(v.value, ast.Call) and isinstance(v.value.func, ast.Name) and v.value.func.id == "str" and len(v.value.args) == 1 and not v.value.keywords:
                    v = ast.FormattedValue(value=v.value.args[0], conversion=-1, format_spec=None)
            if isinstance(v, ast.Constant) and vals and isinstance(vals[-1], ast.Constant):
                vals[-1] = ast.Constant(vals[-1].value + v.value)
            else:
                vals.append(v)
        if len(vals) == 1 and isinstance(vals[0], ast.Constant):
            return vals[0]
        node.values = vals
        return node


class _LenCanon(ast.NodeTransformer):
    """``len(x) > 0`` / ``>= 1`` -> ``len(x) != 0``; ``len(x) < 1`` / ``<= 0`` -> ``len(x) == 0`` (a length is never negative)."""

    def visit_Compare(self, node):
        self.generic_visit(node)
        if len(node.ops) == 1 and isinstance(node.left, ast.Call) and isinstance(node.left.func, ast.Name) and node.left.func.id == "len" \
                and isinstance(node.comparators[0], ast.Constant) and isinstance(node.comparators[0].value, int) and not isinstance(node.comparators[0].value, bool):
            k, op = node.comparators[0].value, node.ops[0]
            nonzero = (isinstance(op, ast.Gt) and k == 0) or (isinstance(op, ast.GtE) and k == 1)
            zero = (isinstance(op, ast.Lt) and k == 1) or (isinstance(op, ast.LtE) and k == 0)
            if nonzero or zero:
                return ast.Compare(left=node.left, ops=[ast.NotEq() if nonzero else ast.Eq()], comparators=[ast.Constant(0)])
        return node


class _MinCanon(ast.NodeTransformer):
    """``b if a > b else a`` -> ``min(a, b)``; arguments of min/max in text order."""

    def visit_IfExp(self, node):
        self.generic_visit(node)
        t = node.test
        if isinstance(t, ast.Compare) and len(t.ops) == 1 and isinstance(t.ops[0], (ast.Gt, ast.GtE, ast.Lt, ast.LtE)):
            a, b = U(t.left), U(t.comparators[0])
            body, orelse = U(node.body), U(node.orelse)
            small_first = isinstance(t.ops[0], (ast.Lt, ast.LtE))  # a < b: a is the smaller
            lo, hi = (a, b) if small_first else (b, a)
            if body == lo and orelse == hi:
                return self._mk("min", t.left, t.comparators[0])
            if body == hi and orelse == lo:
                return self._mk("max", t.left, t.comparators[0])
        return node

    def visit_Call(self, node):
        self.generic_visit(node)
        if isinstance(node.func, ast.Name) and node.func.id in ("min", "max") and not node.keywords:
            args = node.args
            if len(args) == 1 and isinstance(args[0], (ast.List, ast.Tuple)) and len(args[0].elts) >= 2:
                args = args[0].elts
            if len(args) >= 2 and not any(isinstance(a, ast.Starred) for a in args):
                return ast.Call(func=ast.Name(id=node.func.id, ctx=ast.Load()), args=sorted(args, key=U), keywords=[])
        return node

    @staticmethod
    def _mk(fn, x, y):
        args = sorted([x, y], key=U)
        return ast.Call(func=ast.Name(id=fn, ctx=ast.Load()), args=args, keywords=[])


class _TupleEq(ast.NodeTransformer):
    """``(a, b) == (c, d)``  ->  ``a == c and b == d`` (and ``!=`` -> ``or`` of ``!=``)."""

    def visit_Compare(self, node):
        self.generic_visit(node)
        if len(node.ops) == 1 and isinstance(node.ops[0], (ast.Eq, ast.NotEq)) and isinstance(node.left, ast.Tuple) and isinstance(node.comparators[0], ast.Tuple) \
                and len(node.left.elts) == len(node.comparators[0].elts) >= 1 and not any(isinstance(x, ast.Starred) for x in node.left.elts + node.comparators[0].elts):
            parts = [ast.Compare(left=a, ops=[type(node.ops[0])()], comparators=[b]) for a, b in zip(node.left.elts, node.comparators[0].elts)]
            if len(parts) == 1:
                return parts[0]
            return ast.BoolOp(op=ast.And() if isinstance(node.ops[0], ast.Eq) else ast.Or(), values=parts)
        return node


class _NegCanon(ast.NodeTransformer):
    """Negations in one spelling: ``if not c: A else: B`` -> ``if c: B else: A`` (both arms present);
    ``a if not c else b`` -> ``b if c else a``; ``not not c`` -> ``c`` where only the truth value is used;
    ``not a == b`` -> ``a != b``, ``not a in b`` -> ``a not in b``, ``not a is b`` -> ``a is not b``."""

    _COMP = {ast.Eq: ast.NotEq, ast.NotEq: ast.Eq, ast.In: ast.NotIn, ast.NotIn: ast.In, ast.Is: ast.IsNot, ast.IsNot: ast.Is}

    def _truth(self, t):
        """Canonical form of an expression used only for its truth value."""
        while isinstance(t, ast.UnaryOp) and isinstance(t.op, ast.Not) and isinstance(t.operand, ast.UnaryOp) and isinstance(t.operand.op, ast.Not):
            t = t.operand.operand
        return t

    def visit_UnaryOp(self, node):
        self.generic_visit(node)
        if isinstance(node.op, ast.Not):
            node.operand = self._truth(node.operand)
            o = node.operand
            if isinstance(o, ast.Compare) and len(o.ops) == 1 and type(o.ops[0]) in self._COMP:
                return ast.copy_location(ast.Compare(left=o.left, ops=[self._COMP[type(o.ops[0])]()], comparators=o.comparators), node)
        return node

    _NEGATIVE = (ast.NotEq, ast.NotIn, ast.IsNot)

    def _positive(self, node):
        """With both arms present the test is written positively (``!=``, ``not in``, ``is not`` and ``not`` swap the arms)."""
        t = node.test
        if isinstance(t, ast.UnaryOp) and isinstance(t.op, ast.Not):
            node.test = t.operand
            node.body, node.orelse = node.orelse, node.body
        elif isinstance(t, ast.Compare) and len(t.ops) == 1 and isinstance(t.ops[0], self._NEGATIVE):
            node.test = ast.copy_location(ast.Compare(left=t.left, ops=[self._COMP[type(t.ops[0])]()], comparators=t.comparators), t)
            node.body, node.orelse = node.orelse, node.body
        return node

    def visit_If(self, node):
        self.generic_visit(node)
        node.test = self._truth(node.test)
        if node.orelse:
            self._positive(node)
        return node

    def visit_IfExp(self, node):
        self.generic_visit(node)
        node.test = self._truth(node.test)
        return self._positive(node)

    def visit_While(self, node):
        self.generic_visit(node)
        node.test = self._truth(node.test)
        return node


class _Prepass:
    """Statement-level canonicalisation before summarising (each rewrite preserves behaviour):

    * ``x = []`` + ``for t in S: x.append(e)``  ->  ``x = [e for t in S]`` (also with one ``if`` filter; ``x = {}`` +
      ``x[k] = v`` -> dict comprehension) when the loop variables are not read afterwards;
    * ``x = A if c else B`` where an arm makes an impure call  ->  ``if c: x = A`` / ``else: x = B``.
    """

    def __init__(self, summ):
        self.summ = summ
        self.n = 0

    def run(self, func):
        self.func = func
        func.body = self.block(func.body)

    def block(self, stmts):
        out = []
        i = 0
        stmts = list(stmts)
        while i < len(stmts):
            st = stmts[i]
            for fld in ("body", "orelse", "finalbody"):
                blk = getattr(st, fld, None)
                if isinstance(blk, list) and blk and isinstance(blk[0], ast.stmt) and not isinstance(st, (ast.FunctionDef, ast.ClassDef)):
                    setattr(st, fld, self.block(blk))
            for h in getattr(st, "handlers", []) or []:
                h.body = self.block(h.body)
            nxt = stmts[i + 1] if i + 1 < len(stmts) else None
            comp = self.as_comprehension(st, nxt, stmts[i + 2:]) if nxt is not None else None
            if comp is not None:
                out.append(comp)
                i += 2
                continue
            out.extend(self.split_ifexp(st))
            i += 1
        return out

    def as_comprehension(self, init, loop, rest):
        if not (isinstance(init, ast.Assign) and len(init.targets) == 1 and isinstance(init.targets[0], ast.Name) and isinstance(loop, ast.For) and not loop.orelse):
            return None
        name = init.targets[0].id
        is_list = isinstance(init.value, ast.List) and not init.value.elts
        is_dict = isinstance(init.value, ast.Dict) and not init.value.keys
        if not (is_list or is_dict):
            return None
        body = loop.body
        cond = None
        if len(body) == 1 and isinstance(body[0], ast.If) and not body[0].orelse:
            cond, body = body[0].test, body[0].body
        if len(body) != 1:
            return None
        b = body[0]
        tnames = {n.id for n in ast.walk(loop.target) if isinstance(n, ast.Name)}
        later = {n.id for s_ in rest for n in ast.walk(s_) if isinstance(n, ast.Name) and isinstance(n.ctx, ast.Load)}
        # enclosing statements after this block may also read the loop variable: be conservative and look at the whole function
        if tnames & self._reads_after(loop, tnames):
            return None
        mentions = lambda e: any(isinstance(n, ast.Name) and n.id == name for n in ast.walk(e))  # noqa: E731
        if mentions(loop.iter) or (cond is not None and mentions(cond)):
            return None
        gen = ast.comprehension(target=loop.target, iter=loop.iter, ifs=[cond] if cond is not None else [], is_async=0)
        if is_list and isinstance(b, ast.Expr) and isinstance(b.value, ast.Call) and isinstance(b.value.func, ast.Attribute) and b.value.func.attr == "append" \
                and isinstance(b.value.func.value, ast.Name) and b.value.func.value.id == name and len(b.value.args) == 1 and not b.value.keywords and not mentions(b.value.args[0]):
            new = ast.Assign(targets=[init.targets[0]], value=ast.ListComp(elt=b.value.args[0], generators=[gen]))
        elif is_dict and isinstance(b, ast.Assign) and len(b.targets) == 1 and isinstance(b.targets[0], ast.Subscript) and isinstance(b.targets[0].value, ast.Name) \
                and b.targets[0].value.id == name and not mentions(b.value) and not mentions(b.targets[0].slice):
            # evaluation order inside a dict comprehension is key then value; in the statement it is value then key
            if self.summ.impure_calls(b.value) and self.summ.impure_calls(b.targets[0].slice):
                return None
            new = ast.Assign(targets=[init.targets[0]], value=ast.DictComp(key=b.targets[0].slice, value=b.value, generators=[gen]))
        else:
            return None
        ast.copy_location(new, init)
        new.end_lineno = loop.end_lineno
        return new

    def _reads_after(self, loop, names):
        """Names of ``names`` that may be read after ``loop`` while still holding the value the loop left in them."""
        out = set()
        binders = []  # (lineno, end_lineno, names) of later loops / comprehensions that rebind
        for n in ast.walk(self.func):
            if isinstance(n, ast.For) and n.lineno > loop.end_lineno:
                binders.append((n.lineno, n.end_lineno, {x.id for x in ast.walk(n.target) if isinstance(x, ast.Name)}))
            if isinstance(n, (ast.ListComp, ast.SetComp, ast.DictComp, ast.GeneratorExp)):
                binders.append((n.lineno, n.end_lineno, {x.id for g in n.generators for x in ast.walk(g.target) if isinstance(x, ast.Name)}))
        # an enclosing loop may run this loop again, but the for statement rebinds its targets first: only reads
        # located after the loop (textually) or before it inside an enclosing loop body matter
        enclosing = []
        for n in ast.walk(self.func):
            if isinstance(n, (ast.For, ast.While)) and n is not loop and n.lineno <= loop.lineno and n.end_lineno >= loop.end_lineno:
                enclosing.append(n)
        for n in ast.walk(self.func):
            if isinstance(n, ast.Name) and n.id in names and isinstance(n.ctx, ast.Load):
                ln = getattr(n, "lineno", 0)
                if loop.lineno <= ln <= loop.end_lineno:
                    continue
                after = ln > loop.end_lineno
                before_in_enclosing = any(e.lineno <= ln < loop.lineno for e in enclosing)
                if not (after or before_in_enclosing):
                    continue
                if any(lo <= ln <= hi and n.id in nm for lo, hi, nm in binders):
                    continue
                out.add(n.id)
        return out

    def split_ifexp(self, st):
        """``x = A if c else B`` with an impure arm -> if statement."""
        if isinstance(st, (ast.Assign, ast.Return)) and isinstance(st.value, ast.IfExp):
            e = st.value
            if (self.summ.impure_calls(e.body) or self.summ.impure_calls(e.orelse)) and not self.summ.impure_calls(e.test):
                def mk(v):
                    n = ast.Assign(targets=st.targets, value=v) if isinstance(st, ast.Assign) else ast.Return(value=v)
                    return ast.copy_location(n, st)
                new = ast.If(test=e.test, body=self.split_ifexp(mk(e.body)), orelse=self.split_ifexp(mk(e.orelse)))
                ast.copy_location(new, st)
                return [new]
        if isinstance(st, (ast.Expr, ast.Assign, ast.Return)) and isinstance(st.value, ast.Call) and self.summ.impure_calls(st.value) == [st.value]:
            # an impure call whose arguments choose between pure alternatives: f(a if c else b) -> if c: f(a) else: f(b)
            call = st.value
            slots = [("a", i) for i, a in enumerate(call.args) if isinstance(a, ast.IfExp)] + [("k", i) for i, k in enumerate(call.keywords) if isinstance(k.value, ast.IfExp)]
            if len(slots) == 1:
                kind_, i_ = slots[0]
                cond = (call.args[i_] if kind_ == "a" else call.keywords[i_].value)
                def variant(arm):
                    c2 = copy.deepcopy(call)
                    if kind_ == "a":
                        c2.args[i_] = copy.deepcopy(arm)
                    else:
                        c2.keywords[i_].value = copy.deepcopy(arm)
                    n = copy.copy(st)
                    n.value = c2
                    return n
                new = ast.If(test=cond.test, body=self.split_ifexp(variant(cond.body)), orelse=self.split_ifexp(variant(cond.orelse)))
                ast.copy_location(new, st)
                return [new]
        if isinstance(st, (ast.Expr, ast.Assign, ast.Return)) and isinstance(st.value, ast.Call):
            # f(..., A if c else B, ...) where only that argument is impure: evaluate it first into a temporary
            call = st.value
            cands = [a for a in call.args if isinstance(a, ast.IfExp) and (self.summ.impure_calls(a.body) or self.summ.impure_calls(a.orelse))]
            if len(cands) == 1 and not call.keywords:
                a = cands[0]
                others = [x for x in call.args if x is not a] + [call.func.value] if isinstance(call.func, ast.Attribute) else [x for x in call.args if x is not a]
                if not any(self.summ.impure_calls(x) for x in others if isinstance(x, ast.AST)) and not self.summ.impure_calls(a.test):
                    self.n += 1
                    tmp = f"__pp{self.n}"
                    pre = ast.copy_location(ast.Assign(targets=[ast.Name(id=tmp, ctx=ast.Store())], value=a), st)
                    call.args = [ast.Name(id=tmp, ctx=ast.Load()) if x is a else x for x in call.args]
                    return self.split_ifexp(pre) + [st]
        return [st]


class Summary:
    """Canonical effect sequence of one function body."""

    def __init__(self, func, consts=None, pure_extra=()):
        self.func = func
        self.consts = consts or {}
        self.pure_extra = set(pure_extra)
        self.n_loops = 0
        self.n_phi = 0
        self.n_defs = 0
        self.carry = []  # stack of name lists whose values must be reported when control leaves the enclosing body
        f = _fresh(func)
        f = _NegCanon().visit(f)
        for n in ast.walk(f):
            for fld in ("body", "orelse", "finalbody", "handlers"):
                blk = getattr(n, fld, None)
                for ch in blk if isinstance(blk, list) else []:
                    if isinstance(ch, (ast.stmt, ast.ExceptHandler)):
                        ch._parent = n
        _Prepass(self).run(f)
        for n in ast.walk(f):
            for fld in ("body", "orelse", "finalbody", "handlers"):
                blk = getattr(n, fld, None)
                for ch in blk if isinstance(blk, list) else []:
                    if isinstance(ch, (ast.stmt, ast.ExceptHandler)):
                        ch._parent = n
        ast.fix_missing_locations(f)
        self.func = f
        body = [s for s in f.body if not (isinstance(s, ast.Expr) and isinstance(s.value, ast.Constant) and isinstance(s.value.value, str))]
        env = {}
        self.items = self.block(body, env, [0], "end")

    # ------------------------------------------------------------------ expressions
    def pure_call(self, c):
        f = c.func
        if isinstance(f, ast.Name):
            return f.id in PURE_FUNCS or f.id in self.pure_extra
        if isinstance(f, ast.Attribute):
            if f.attr in PURE_METHODS:
                return True
            if isinstance(f.value, ast.Name) and f.value.id in ("math", "re", "struct", "TSTArchives", "TSPMessages", "TSKArchives", "TSCEArchives", "TSWPArchives", "TSSArchives", "TSDArchives", "TSAArchives", "TNArchives"):
                return True
        return False

    def impure_calls(self, e):
        return [n for n in ast.walk(e) if isinstance(n, ast.Call) and not self.pure_call(n)]

    def ev(self, expr, env, ep, items):
        """Canonical form of ``expr`` evaluated now: substitute, hoist impure calls into items (in evaluation order),
        stamp heap reads with the current epoch."""
        e = _Subst(env).visit(copy.deepcopy(expr))
        e = _TupleEq().visit(e)
        e = _BoolCanon().visit(e)
        e = _LenCanon().visit(e)
        e = _MinCanon().visit(e)
        e = _FStrCanon().visit(e)
        if not self.impure_calls(e):
            e = _lift_conditionals(e)
        e = self._hoist(e, ep, items)
        return self._stamp(e, ep[0])

    def _hoist(self, e, ep, items):
        imp = self.impure_calls(e)
        if not imp:
            return e
        # impure call under a short-circuit / conditional / comprehension: the whole expression is one opaque effect
        for n in ast.walk(e):
            if isinstance(n, (ast.BoolOp, ast.IfExp, ast.ListComp, ast.SetComp, ast.DictComp, ast.GeneratorExp, ast.Lambda)):
                if any(c is x for c in imp for x in ast.walk(n) if x is not n):
                    guarded = n.values[1:] if isinstance(n, ast.BoolOp) else ([n.body, n.orelse] if isinstance(n, ast.IfExp) else [n])
                    if any(c is x for c in imp for g in guarded for x in ast.walk(g)):
                        txt = U(self._stamp(e, ep[0]))
                        items.append(("eval", txt))
                        ep[0] += 1
                        return _sym(f"r{ep[0] - 1}")
        outer = self

        class H(ast.NodeTransformer):
            def visit_Call(self, node):
                node = self.generic_visit(node)  # children first (evaluation order: func, args)
                if outer.pure_call(node):
                    return node
                # a call whose (pure) arguments choose between alternatives is the same as choosing between calls
                lifted = _lift_conditionals(node, limit=3) if any(isinstance(x, ast.IfExp) for a in list(node.args) + [k.value for k in node.keywords] for x in ast.walk(a)) else node

                def emit(n):
                    if isinstance(n, ast.IfExp):
                        return [("if", n.test, emit(n.body) + [("fall",)], emit(n.orelse) + [("fall",)])]
                    return [("call", U(outer._stamp(n, ep[0])))]

                items.extend(emit(lifted))
                ep[0] += 1
                return _sym(f"r{ep[0] - 1}")

        return H().visit(e)

    def _stamp(self, e, k):
        """Replace each maximal heap-reading sub-expression by a symbol carrying its text and evaluation epoch (a value
        computed before a store or an impure call is not the same value computed after it)."""

        class S(ast.NodeTransformer):
            def visit(self, node):
                if isinstance(node, (ast.Call, ast.Attribute, ast.Subscript, ast.ListComp, ast.SetComp, ast.DictComp, ast.GeneratorExp)):
                    return _sym(f"{_flatten_epoch(U(node), k)}@{k}")
                return super().visit(node)

        out = S().visit(e)
        if sum(1 for _ in ast.walk(out)) > 4000:
            raise NotProven("expression too large")
        return out

    # ------------------------------------------------------------------ statements
    def block(self, stmts, env, ep, tail):
        """Items of a statement list; ``tail`` is the terminator used when control falls off the end."""
        items = []
        for i, st in enumerate(stmts):
            rest = stmts[i + 1:]
            if isinstance(st, (ast.Pass, ast.Import, ast.ImportFrom, ast.Global, ast.Nonlocal)):
                continue
            if isinstance(st, ast.Expr):
                if isinstance(st.value, ast.Constant):
                    continue
                v = self.ev(st.value, env, ep, items)
                if not _is_sym(getattr(v, "id", None)):
                    if _heap_reading(v):
                        items.append(("expr", V(v)))
                continue
            if isinstance(st, (ast.Assign, ast.AnnAssign)):
                if isinstance(st, ast.AnnAssign):
                    if st.value is None:
                        continue
                    targets, value = [st.target], st.value
                else:
                    targets, value = st.targets, st.value
                v = self.ev(value, env, ep, items)
                for t in targets:
                    self.assign(t, v, env, ep, items)
                continue
            if isinstance(st, ast.AugAssign):
                if isinstance(st.target, ast.Name):
                    cur = ast.Name(id=st.target.id, ctx=ast.Load())
                    v = self.ev(ast.BinOp(left=cur, op=st.op, right=st.value), env, ep, items)
                    env[st.target.id] = v
                else:
                    v = self.ev(st.value, env, ep, items)
                    tgt = self.ev(_load(st.target), env, ep, items)
                    items.append(("augstore", V(tgt), type(st.op).__name__, V(v)))
                    ep[0] += 1
                continue
            if isinstance(st, ast.Delete):
                for t in st.targets:
                    if isinstance(t, ast.Name):
                        env.pop(t.id, None)
                    else:
                        items.append(("del", U(self.ev(_load(t), env, ep, items))))
                        ep[0] += 1
                continue
            if isinstance(st, ast.Return):
                v = self.ev(st.value, env, ep, items) if st.value is not None else ast.Constant(None)
                items.append(("return", V(v)))
                return items
            if isinstance(st, ast.Raise):
                v = self.ev(st.exc, env, ep, items) if st.exc is not None else ast.Constant(None)
                c = self.ev(st.cause, env, ep, items) if st.cause is not None else None
                items.append(("raise", V(v), V(c) if c is not None else ""))
                return items
            if isinstance(st, ast.Continue):
                # at the end of the body ``continue`` and falling off the end are the same thing
                self._emit_carry(items, env)
                items.append(("next",))
                return items
            if isinstance(st, ast.Break):
                self._emit_carry(items, env)
                items.append(("break",))
                return items
            if isinstance(st, ast.Assert):
                items.append(("assert", V(self.ev(st.test, env, ep, items))))
                continue
            if isinstance(st, ast.If):
                cond = self.ev(st.test, env, ep, items)
                e1, e2 = dict(env), dict(env)
                p1, p2 = [ep[0]], [ep[0]]
                exits1, exits2 = _exits(st.body), _exits(st.orelse)
                if exits1 or exits2:
                    # a branch can leave: the rest of the block belongs to the branches that fall through
                    b1 = self.block(list(st.body) + ([] if _always_exits(st.body) else rest), e1, p1, tail)
                    b2 = self.block(list(st.orelse) + ([] if _always_exits(st.orelse) else rest), e2, p2, tail)
                    items.append(("if", cond, b1, b2))
                    ep[0] = max(p1[0], p2[0])
                    return items
                b1 = self.block(st.body, e1, p1, "fall")
                b2 = self.block(st.orelse, e2, p2, "fall")
                b1 = b1[:-1] if b1 and b1[-1] == ("fall",) else b1
                b2 = b2[:-1] if b2 and b2[-1] == ("fall",) else b2
                if b1 or b2:
                    items.append(("if", cond, b1 + [("fall",)], b2 + [("fall",)]))
                ep[0] = max(p1[0], p2[0])
                if p1[0] != p2[0]:
                    # different numbers of effects in the two arms: later epochs would not line up between spellings
                    ep[0] = max(p1[0], p2[0])
                for name in sorted(set(e1) | set(e2)):
                    a, b = e1.get(name), e2.get(name)
                    if a is None or b is None:
                        if name in env and (a is None or b is None) and not (name in e1 and name in e2):
                            pass
                        a = a if a is not None else ast.Name(id=name, ctx=ast.Load())
                        b = b if b is not None else ast.Name(id=name, ctx=ast.Load())
                    if U(a) == U(b):
                        env[name] = a
                    elif sum(1 for _ in ast.walk(a)) + sum(1 for _ in ast.walk(b)) > 80:
                        # keep merged values small: a named join point, defined by one item
                        self.n_phi += 1
                        items.append(("phi", self.n_phi, U(cond), U(a), U(b)))
                        env[name] = _sym(f"phi{self.n_phi}")
                    else:
                        env[name] = ast.IfExp(test=copy.deepcopy(cond), body=a, orelse=b)
                continue
            if isinstance(st, (ast.For, ast.While)):
                self.loop(st, env, ep, items)
                continue
            if isinstance(st, ast.With):
                hdr = []
                for it in st.items:
                    v = self.ev(it.context_expr, env, ep, items)
                    hdr.append(U(v))
                    if it.optional_vars is not None:
                        self.assign(it.optional_vars, _sym(f"w{ep[0]}"), env, ep, items)
                k = ep[0]
                ep[0] += 1
                if _exits(st.body):
                    raise NotProven("exit inside with")
                self.carry.append(_stored_names(st.body, self.func))
                try:
                    body = self.block(st.body, env, ep, "body-end")
                finally:
                    self.carry.pop()
                items.append(("with", tuple(hdr), body))
                self._kill_assigned(st.body, env, f"W{k}")
                continue
            if isinstance(st, ast.Try):
                k = ep[0]
                ep[0] += 1
                if _exits_loop_only(st):
                    raise NotProven("continue/break inside try")
                if _exits([st]) and any(isinstance(n, ast.Return) for n in ast.walk(st)) and self.carry:
                    pass
                self.carry.append(_stored_names([st], self.func))
                try:
                    body = self.block(st.body, dict(env), [ep[0]], "body-end")
                    hs = []
                    for h in st.handlers:
                        he = dict(env)
                        if h.name:
                            he[h.name] = _sym(f"exc{k}")
                        hs.append((U(h.type) if h.type is not None else "", self.block(h.body, he, [ep[0]], "body-end")))
                    orelse = self.block(st.orelse, dict(env), [ep[0]], "body-end")
                    final = self.block(st.finalbody, dict(env), [ep[0]], "body-end")
                finally:
                    self.carry.pop()
                items.append(("try", body, tuple(hs), orelse, final))
                self._kill_assigned([st], env, f"T{k}")
                ep[0] += 10
                continue
            if isinstance(st, ast.FunctionDef):
                # a closure: summarised in place; captured names must not be rebound after the definition
                later = {n.id for s2 in rest for n in ast.walk(s2) if isinstance(n, ast.Name) and isinstance(n.ctx, ast.Store)}
                a = st.args
                if a.vararg or a.kwarg or st.decorator_list:
                    raise NotProven("nested definition with stars or decorators")
                params = [p.arg for p in a.args + a.kwonlyargs]
                free = {n.id for n in ast.walk(st) if isinstance(n, ast.Name) and isinstance(n.ctx, ast.Load)} - set(params)
                if free & later or any(isinstance(n, (ast.Nonlocal, ast.Global)) for n in ast.walk(st)):
                    raise NotProven("closure over a rebound name")
                self.n_defs += 1
                inner = {k_: v_ for k_, v_ in env.items() if k_ not in params}
                for j, p_ in enumerate(params):
                    inner[p_] = _sym(f"d{self.n_defs}.p{j}")
                sub = Summary.__new__(Summary)
                sub.func, sub.consts, sub.pure_extra, sub.n_loops, sub.n_phi, sub.n_defs = st, self.consts, self.pure_extra, 100 * self.n_defs, 100 * self.n_defs, 100 * self.n_defs
                sub.carry = []
                body_items = sub.block([s3 for s3 in st.body if not (isinstance(s3, ast.Expr) and isinstance(s3.value, ast.Constant))], inner, [0], "end")
                items.append(("def", len(params), tuple(U(d) for d in a.defaults), body_items))
                env[st.name] = _sym(f"def{self.n_defs}")
                continue
            if isinstance(st, ast.ClassDef):
                raise NotProven("nested class")
            raise NotProven(f"statement {type(st).__name__}")
        if tail in ("next", "body-end"):
            self._emit_carry(items, env)
        # falling off the end of a function is ``return None``
        items.append(("return", V(ast.Constant(None))) if tail == "end" else (tail,))
        return items

    def _live_out(self, loop, name):
        """May the value ``name`` holds when an iteration ends be observed (after the loop, or by a later iteration)?"""
        lo, hi = loop.lineno, loop.end_lineno
        first_store = None
        for n in ast.walk(loop):
            if isinstance(n, ast.Name) and n.id == name:
                pos = (n.lineno, n.col_offset)
                if isinstance(n.ctx, ast.Store) and not (isinstance(loop, ast.For) and any(n is x for x in ast.walk(loop.target))):
                    if first_store is None or pos < first_store:
                        first_store = pos
        for n in ast.walk(self.func):
            if isinstance(n, ast.Name) and n.id == name and isinstance(n.ctx, (ast.Load, ast.Del)):
                if not (lo <= n.lineno <= hi):
                    return True
                if first_store is None or (n.lineno, n.col_offset) <= first_store:
                    return True
            if isinstance(n, ast.AugAssign) and isinstance(n.target, ast.Name) and n.target.id == name and lo <= n.lineno <= hi:
                return True
            if isinstance(n, (ast.Assign, ast.AnnAssign)) and lo <= n.lineno <= hi and n.value is not None \
                    and any(isinstance(x, ast.Name) and x.id == name and isinstance(x.ctx, ast.Store) for x in ast.walk(n)) \
                    and any(isinstance(x, ast.Name) and x.id == name and isinstance(x.ctx, ast.Load) for x in ast.walk(n.value)):
                # x = f(x): the right-hand side reads the value of the previous iteration
                if first_store is not None and (n.lineno, 0) <= first_store:
                    return True
        # nested functions and comprehensions read names late
        return False

    def _emit_carry(self, items, env):
        if self.carry:
            names = self.carry[-1]
            items.append(("carry",) + tuple(V(env[a]) if a in env else a for a in names))

    def _kill_assigned(self, stmts, env, tag):
        names = []
        for s in stmts:
            for n in ast.walk(s):
                if isinstance(n, ast.Name) and isinstance(n.ctx, ast.Store) and n.id not in names:
                    names.append(n.id)
        for j, nm in enumerate(names):
            env[nm] = _sym(f"{tag}.{j}")

    def assign(self, target, v, env, ep, items):
        if isinstance(target, ast.Name):
            env[target.id] = v
        elif isinstance(target, (ast.Tuple, ast.List)):
            if isinstance(v, (ast.Tuple, ast.List)) and len(v.elts) == len(target.elts) and not any(isinstance(x, ast.Starred) for x in list(v.elts) + list(target.elts)):
                for t, x in zip(target.elts, v.elts):
                    self.assign(t, x, env, ep, items)
            else:
                stars = [j for j, x in enumerate(target.elts) if isinstance(x, ast.Starred)]
                if stars and stars != [len(target.elts) - 1]:
                    raise NotProven("starred unpacking")
                for j, t in enumerate(target.elts):
                    # the elements are taken out when the assignment runs
                    if isinstance(t, ast.Starred):
                        self.assign(t.value, self._stamp(ast.Subscript(value=copy.deepcopy(v), slice=ast.Slice(lower=ast.Constant(j)), ctx=ast.Load()), ep[0]), env, ep, items)
                    else:
                        self.assign(t, self._stamp(ast.Subscript(value=copy.deepcopy(v), slice=ast.Constant(j), ctx=ast.Load()), ep[0]), env, ep, items)
        elif isinstance(target, (ast.Attribute, ast.Subscript)):
            tgt = self.ev(_load(target), env, ep, items)
            items.append(("store", V(tgt), V(v)))
            ep[0] += 1
        else:
            raise NotProven("assignment target")

    def loop(self, st, env, ep, items):
        from .symexec import loop_domain

        k = self.n_loops
        self.n_loops += 1
        if st.orelse:
            raise NotProven("loop else")
        body = list(st.body)
        inner = dict(env)
        header = None
        dom = None
        try:
            dom = loop_domain(st, self.func, self.consts)
        except Exception:  # noqa: BLE001
            dom = None
        assigned = []
        for s in body:
            for n in ast.walk(s):
                if isinstance(n, ast.Name) and isinstance(n.ctx, ast.Store) and n.id not in assigned:
                    assigned.append(n.id)
        if isinstance(st, ast.For):
            it = self.ev(st.iter, env, ep, items)
            tnames = [n.id for n in ast.walk(st.target) if isinstance(n, ast.Name)]
            if dom is not None and isinstance(st.iter, ast.Call) and call_name(st.iter) in ("range", "enumerate", "reversed"):
                lo_l, hi_l = _lin_sub(dom["lo"], env, self), _lin_sub(dom["hi"], env, self)
                lo, hi = repr(lo_l), repr(hi_l)
                header = ("count", lo, hi, dom["step"])
                if lo_l.is_const() and lo_l.c == 0 and hi_l.c == 0 and len(hi_l.t) == 1:
                    (sym_, coef_), = hi_l.t.items()
                    if coef_ == 1 and sym_.startswith("len(") and sym_.endswith(")"):
                        header = ("count-seq", _unstamp(sym_[4:-1]), dom["step"])
                idx = _sym(f"L{k}.i")
                if dom["var"]:
                    inner[dom["var"]] = idx
                if dom["elem"]:
                    seq = self.ev(st.iter.args[0], env, ep, items) if call_name(st.iter) == "enumerate" else None
                    if seq is None:
                        raise NotProven("loop shape")
                    header = ("count-seq", _unstamp(U(seq)), dom["step"])
                    inner[dom["elem"]] = ast.Subscript(value=_Subst(env).visit(copy.deepcopy(st.iter.args[0])), slice=copy.deepcopy(idx), ctx=ast.Load())
            elif dom is not None and dom["var"] is None and dom["elem"]:
                # for x in S  -- same canonical form as enumerate(S) with an unused index
                header = ("count-seq", _unstamp(U(it)), dom["step"])
                inner[dom["elem"]] = ast.Subscript(value=_Subst(env).visit(copy.deepcopy(st.iter)), slice=_sym(f"L{k}.i"), ctx=ast.Load())
            else:
                header = ("iter", U(it))
                if isinstance(st.target, ast.Name):
                    inner[st.target.id] = _sym(f"L{k}.t0")
                else:
                    # ``for a, b in X`` == ``for t in X: a, b = t``
                    self.assign(st.target, _sym(f"L{k}.t0"), inner, [ep[0]], [])
            carried = [a for a in assigned if a not in tnames]
        else:
            if dom is not None:
                lo, hi = repr(_lin_sub(dom["lo"], env, self)), repr(_lin_sub(dom["hi"], env, self))
                header = ("count", lo, hi, 1)
                inner[dom["var"]] = _sym(f"L{k}.i")
                body = [s for s in body if s is not st.body[-1]]
                carried = [a for a in assigned if a != dom["var"]]
            else:
                carried = list(assigned)
                header = None
        carried = [a for a in carried if self._live_out(st, a)]
        keep = set(tnames) if isinstance(st, ast.For) else ({dom["var"]} if dom is not None else set())
        for a in assigned:
            if a not in carried and a not in keep:
                inner.pop(a, None)
        for j, a in enumerate(carried):
            inner[a] = _sym(f"L{k}.c{j}")
        p = [ep[0] + 1]
        if header is None:
            cond_items = []
            cond = self.ev(st.test, inner, p, cond_items)
            header = ("while", U(cond), tuple(cond_items))
        self.carry.append(list(carried))
        try:
            b = self.block(body, inner, p, "next")
        finally:
            self.carry.pop()
        # the carried variables as they enter the loop
        init = tuple(U(env[a]) if a in env else a for a in carried)
        items.append(("loop", header, init, b))
        ep[0] = p[0] + 1
        for j, a in enumerate(carried):
            env[a] = _sym(f"L{k}.c{j}'")
        if isinstance(st, ast.For):
            for j, t in enumerate(n.id for n in ast.walk(st.target) if isinstance(n, ast.Name)):
                env[t] = _sym(f"L{k}.t{j}'")
        elif dom is not None:
            env[dom["var"]] = _sym(f"L{k}.i'")


def _strip_epochs(text, only=None):
    """Remove the ``⟦…@k⟧`` wrappers (all of them, or only those of epoch ``only``), keeping plain symbols ``⟦name⟧``."""
    import re

    out = []  # stack of partial strings
    cur = []
    for ch in text:
        if ch == "⟦":
            out.append(cur)
            cur = []
        elif ch == "⟧" and out:
            body = "".join(cur)
            m = re.fullmatch(r"(.*)@(\d+)", body, re.S)
            cur = out.pop()
            if m and (only is None or int(m.group(2)) == only):
                cur.append(m.group(1))
            else:
                cur.append("⟦" + body + "⟧")
        else:
            cur.append(ch)
    while out:
        prev = out.pop()
        cur = prev + ["⟦"] + cur
    return "".join(cur)


def _flatten_epoch(text, k):
    """Inside a value stamped with epoch k, parts already stamped with the same epoch need no stamp of their own."""
    return _strip_epochs(text, k)


def _unstamp(text):
    """``⟦data[⟦L0.i⟧]@3⟧`` -> ``data[⟦L0.i⟧]``: drop evaluation epochs (loop headers are compared without them)."""
    return _strip_epochs(text, None).replace(" ", "")


def _stored_names(stmts, func=None):
    out = []
    for s_ in stmts:
        for n in ast.walk(s_):
            if isinstance(n, ast.Name) and isinstance(n.ctx, ast.Store) and n.id not in out:
                out.append(n.id)
    if func is not None and stmts:
        lo, hi = min(s_.lineno for s_ in stmts), max(s_.end_lineno for s_ in stmts)
        live = {n.id for n in ast.walk(func) if isinstance(n, ast.Name) and isinstance(n.ctx, (ast.Load, ast.Del)) and not (lo <= n.lineno <= hi)}
        # inside a loop a later iteration may read the value: keep those too
        out = [a for a in out if a in live or _in_loop(func, stmts[0])]
    return out


def _in_loop(func, st):
    p = getattr(st, "_parent", None)
    while p is not None:
        if isinstance(p, (ast.For, ast.While)):
            return True
        p = getattr(p, "_parent", None)
    return False


def _lin_sub(l, env, summ):
    """A Lin over names -> text with the environment substituted into its atoms."""
    from .linear import Lin

    out = Lin(l.c)
    for sym, coef in l.t.items():
        txt = sym[1:-1] if sym.startswith("<") and sym.endswith(">") else sym
        try:
            e = ast.parse(txt, mode="eval").body
            e = _Subst(env).visit(e)
            from .symexec import lin_opaque

            out = out + lin_opaque(e, summ.consts).scale(coef)
        except SyntaxError:
            out = out + Lin(0, {sym: coef})
    return out


def _with_parent_block(st, func):
    """loop_domain needs the statements before a while loop: give the fresh copy a parent whose body holds it."""
    if getattr(st, "_parent", None) is None:
        for n in ast.walk(func):
            for fld in ("body", "orelse", "finalbody"):
                blk = getattr(n, fld, None)
                if isinstance(blk, list) and any(U(s) == U(st) for s in blk if isinstance(s, ast.stmt)):
                    holder = ast.Module(body=[], type_ignores=[])
                    idx = [i for i, s in enumerate(blk) if U(s) == U(st)][0]
                    holder.body = [_fresh(s) for s in blk[:idx]] + [st]
                    st._parent = holder
                    return st
    return st


def _load(t):
    t = copy.deepcopy(t)
    for n in ast.walk(t):
        if hasattr(n, "ctx"):
            n.ctx = ast.Load()
    return t


def _exits(stmts):
    """Does the block contain a statement that leaves it (not counting those inside nested loops for continue/break)?"""
    def walk(ss, in_loop):
        for s in ss:
            if isinstance(s, (ast.Return, ast.Raise)):
                return True
            if isinstance(s, (ast.Continue, ast.Break)) and not in_loop:
                return True
            if isinstance(s, ast.If) and (walk(s.body, in_loop) or walk(s.orelse, in_loop)):
                return True
            if isinstance(s, (ast.For, ast.While)) and (walk(s.body, True) or walk(s.orelse, in_loop)):
                return True
            if isinstance(s, ast.With) and walk(s.body, in_loop):
                return True
            if isinstance(s, ast.Try):
                if walk(s.body, in_loop) or any(walk(h.body, in_loop) for h in s.handlers) or walk(s.orelse, in_loop) or walk(s.finalbody, in_loop):
                    return True
        return False
    return walk(stmts, False)


def _exits_loop_only(st):
    return any(isinstance(n, (ast.Continue, ast.Break)) for n in ast.walk(st))


def _always_exits(stmts):
    if not stmts:
        return False
    last = stmts[-1]
    if isinstance(last, (ast.Return, ast.Raise, ast.Continue, ast.Break)):
        return True
    if isinstance(last, ast.If) and last.orelse:
        return _always_exits(last.body) and _always_exits(last.orelse)
    return False


# --------------------------------------------------------------------------- comparison


def _atoms(cond):
    from .symexec import bool_atoms

    return bool_atoms(cond)


def _resolve(cond, asg):
    from .symexec import bool_eval

    return bool_eval(cond, asg)


class Budget:
    def __init__(self, n):
        self.n = n

    def spend(self):
        self.n -= 1
        if self.n < 0:
            raise NotProven("comparison budget exhausted")


LAST_DIFF = []


def _brief(it):
    if it is None:
        return None
    if it[0] == "if":
        return "if " + U(it[1])[:300]
    if it[0] == "loop":
        return f"loop {it[1]} init={it[2]}"
    return " | ".join(str(x)[:300] for x in it)


def _sxu(node):
    from .symexec import _u
    return _u(node)


def same(seq1, seq2, asg=None, budget=None):
    """Are two item sequences equal for every truth assignment extending ``asg``?"""
    asg = dict(asg or {})
    budget = budget or Budget(100000)
    budget.spend()
    i = j = 0
    s1, s2 = list(seq1), list(seq2)
    while True:
        h1 = s1[i] if i < len(s1) else None
        h2 = s2[j] if j < len(s2) else None
        if h1 is None or h2 is None:
            if not (h1 is None and h2 is None):
                LAST_DIFF.append(("length", _brief(h1), _brief(h2)))
            return h1 is None and h2 is None
        if h1[0] == "if" and h2[0] == "if" and _sxu(h1[1]) == _sxu(h2[1]) and all(b and b[-1] == ("fall",) for b in (h1[2], h1[3], h2[2], h2[3])):
            # the same test around blocks that fall through: compare the arms, then carry on once with the rest
            r = _resolve(h1[1], asg)
            ats = sorted(_atoms(h1[1]))
            for val, b1, b2 in ((True, h1[2], h2[2]), (False, h1[3], h2[3])):
                if r is not None and r != val:
                    continue
                a2 = dict(asg)
                if r is None and len(ats) == 1:
                    for cand in (True, False):
                        if _resolve(h1[1], {**asg, ats[0]: cand}) == val:
                            a2[ats[0]] = cand
                if not same(b1, b2, a2, budget):
                    return False
            i += 1
            j += 1
            continue
        if h1[0] == "if" and h2[0] == "if" and _sxu(h1[1]) == _sxu(h2[1]):
            r = _resolve(h1[1], asg)
            rest1, rest2 = s1[i + 1:], s2[j + 1:]
            oks = True
            for val, b1, b2 in ((True, h1[2], h2[2]), (False, h1[3], h2[3])):
                if r is not None and r != val:
                    continue
                a2 = dict(asg)
                if r is None:
                    ats = sorted(_atoms(h1[1]))
                    if len(ats) == 1:
                        # a single atom: its value is the value of the condition (or its negation)
                        for cand in (True, False):
                            if _resolve(h1[1], {**asg, ats[0]: cand}) == val:
                                a2[ats[0]] = cand
                    else:
                        # compound condition: enumerate the atoms consistently
                        return _split(s1[i:], s2[j:], asg, budget)
                if not same(_splice(b1, rest1), _splice(b2, rest2), a2, budget):
                    oks = False
                    break
            return oks
        if h1[0] == "if" or h2[0] == "if":
            return _split(s1[i:], s2[j:], asg, budget)
        if not _same_item(h1, h2, budget, asg):
            LAST_DIFF.append(("item", _brief(h1), _brief(h2)))
            return False
        i += 1
        j += 1


def _splice(branch, rest):
    """Branch items followed by the rest when the branch falls through."""
    if branch and branch[-1] == ("fall",):
        return list(branch[:-1]) + list(rest)
    return list(branch)


def _split(s1, s2, asg, budget):
    """The heads differ and at least one is an ``if``: decide it under the assignment or split on one of its atoms."""
    for which, s in ((1, s1), (2, s2)):
        h = s[0]
        if h[0] != "if":
            continue
        r = _resolve(h[1], asg)
        if r is None:
            free = [a for a in sorted(_atoms(h[1])) if a not in asg]
            if not free:
                raise NotProven("undetermined condition")
            a = free[0]
            return all(same(s1, s2, {**asg, a: val}, budget) for val in (True, False))
        chosen = _splice(h[2] if r else h[3], s[1:])
        return same(chosen, s2, asg, budget) if which == 1 else same(s1, chosen, asg, budget)
    return False


def _same_item(a, b, budget, asg=None):
    if a[0] != b[0] or len(a) != len(b):
        return False
    kind = a[0]
    if any(isinstance(x, V) for x in a) or any(isinstance(x, V) for x in b):
        for x, y in zip(a, b):
            tx = x.text(asg) if isinstance(x, V) else x
            ty = y.text(asg) if isinstance(y, V) else y
            if tx != ty:
                if isinstance(x, V) and isinstance(y, V) and (_same_by_cases(x, y, asg or {}) or _bool_equal(x.node, y.node, asg or {})):
                    continue
                return False
        return True
    if kind == "loop":
        return a[1] == b[1] and a[2] == b[2] and same(a[3], b[3], {}, budget)
    if kind == "def":
        return a[1] == b[1] and a[2] == b[2] and same(a[3], b[3], {}, budget)
    if kind == "with":
        return a[1] == b[1] and same(a[2], b[2], {}, budget)
    if kind == "try":
        if not same(a[1], b[1], {}, budget) or len(a[2]) != len(b[2]):
            return False
        for (t1, h1), (t2, h2) in zip(a[2], b[2]):
            if t1 != t2 or not same(h1, h2, {}, budget):
                return False
        return same(a[3], b[3], {}, budget) and same(a[4], b[4], {}, budget)
    return a == b


def _bool_shaped(n):
    """Does the expression evaluate to a genuine bool (so that only its truth value matters)?"""
    if isinstance(n, ast.Constant):
        return isinstance(n.value, bool)
    if isinstance(n, ast.UnaryOp) and isinstance(n.op, ast.Not):
        return True
    if isinstance(n, ast.Compare):
        return True
    if isinstance(n, ast.BoolOp):
        return all(_bool_shaped(v) for v in n.values)
    if isinstance(n, ast.IfExp):
        return _bool_shaped(n.body) and _bool_shaped(n.orelse)
    return False


def _bool_equal(xn, yn, asg):
    """Two bool-valued expressions with the same truth table over their atoms (given the branch facts ``asg``)."""
    import itertools

    from .symexec import bool_atoms, bool_eval

    if not (_bool_shaped(xn) and _bool_shaped(yn)):
        return False
    atoms = sorted(a for a in (bool_atoms(xn) | bool_atoms(yn)) if a not in asg)
    if len(atoms) > 7:
        return False
    for vals in itertools.product([False, True], repeat=len(atoms)):
        full = dict(asg)
        full.update(zip(atoms, vals))
        bx, by = bool_eval(xn, full), bool_eval(yn, full)
        if bx is None or by is None or bx != by:
            return False
    return True


def _same_by_cases(x, y, asg):
    """Two values that differ as text: equal under every truth assignment of the tests of their conditional
    sub-expressions?  (``f(a if c else b)`` == ``f(a) if c else f(b)``)"""
    import itertools

    from .symexec import bool_atoms

    atoms = set()
    for v in (x, y):
        for n in ast.walk(v.node):
            if isinstance(n, ast.IfExp):
                atoms |= bool_atoms(n.test)
    atoms = sorted(a for a in atoms if a not in asg)
    if not atoms or len(atoms) > 7:
        return False
    for vals in itertools.product([False, True], repeat=len(atoms)):
        full = dict(asg)
        full.update(zip(atoms, vals))
        if x.text(full) != y.text(full):
            return False
    return True


def signature(func):
    a = func.args
    return (U(a), tuple(U(d) for d in func.decorator_list), func.name, isinstance(func, ast.AsyncFunctionDef))


def equivalent(cur, ref, consts=None, pure_extra=()):
    """(True, "") when ``cur`` is proven equivalent to ``ref``; (False, reason) otherwise (reason starts with
    "not proven:" when the fragment was left, "differs:" when a concrete difference was found)."""
    import sys

    if sys.getrecursionlimit() < 6000:
        sys.setrecursionlimit(6000)
    if signature(cur) != signature(ref):
        return False, "differs: signature or decorators"
    if ast.dump(_strip_doc(cur)) == ast.dump(_strip_doc(ref)):
        return True, ""
    if alpha_equal(cur, ref):
        return True, ""
    from . import symexec as _sx
    try:
        s1 = Summary(cur, consts, pure_extra)
        s2 = Summary(ref, consts, pure_extra)
        _sx.UCACHE = {}
        try:
            ok = same(s1.items, s2.items)
        finally:
            _sx.UCACHE = None
    except NotProven as e:
        return False, f"not proven: {e}"
    except RecursionError:
        return False, "not proven: recursion limit"
    return (True, "") if ok else (False, "differs: effect sequences")


def _strip_all_docs(func):
    f = ast.parse(ast.unparse(func)).body[0]
    for n in ast.walk(f):
        if isinstance(n, (ast.FunctionDef, ast.AsyncFunctionDef, ast.ClassDef)) and n.body and isinstance(n.body[0], ast.Expr) \
                and isinstance(n.body[0].value, ast.Constant) and isinstance(n.body[0].value.value, str):
            n.body = n.body[1:] or [ast.Pass()]
    return f


def _bound_names(func):
    """Names bound inside the function (any nested scope), other than parameters and global/nonlocal declarations."""
    out = set()
    excluded = set()
    for n in ast.walk(func):
        if isinstance(n, ast.Name) and isinstance(n.ctx, (ast.Store, ast.Del)):
            out.add(n.id)
        elif isinstance(n, ast.ExceptHandler) and n.name:
            out.add(n.name)
        elif isinstance(n, (ast.FunctionDef, ast.AsyncFunctionDef, ast.ClassDef)) and n is not func:
            out.add(n.name)
        elif isinstance(n, (ast.Global, ast.Nonlocal)):
            excluded |= set(n.names)
        elif isinstance(n, ast.arg):
            excluded.add(n.arg)
        elif isinstance(n, (ast.Import, ast.ImportFrom)):
            excluded |= {(a.asname or a.name).split(".")[0] for a in n.names}
    return out - excluded


def alpha_equal(cur, ref) -> bool:
    """The two functions are the same up to a consistent one-to-one renaming of the names they bind locally (locals,
    comprehension and loop variables, exception names, nested function names).  Parameters, attributes, keywords,
    globals and constants must agree exactly; docstrings are ignored."""
    a, b = _strip_all_docs(cur), _strip_all_docs(ref)
    la, lb = _bound_names(a), _bound_names(b)
    fwd, bwd = {}, {}

    def name(x, y):
        xa, yb = x in la, y in lb
        if xa != yb:
            return False
        if not xa:
            return x == y
        if fwd.setdefault(x, y) != y or bwd.setdefault(y, x) != x:
            return False
        return True

    def eq(x, y, top=False):
        if type(x) is not type(y):
            return False
        if isinstance(x, ast.Name):
            return name(x.id, y.id) and type(x.ctx) is type(y.ctx)
        if isinstance(x, ast.ExceptHandler):
            if (x.name is None) != (y.name is None) or (x.name is not None and not name(x.name, y.name)):
                return False
        if isinstance(x, (ast.FunctionDef, ast.AsyncFunctionDef, ast.ClassDef)) and not top:
            if not name(x.name, y.name):
                return False
        if isinstance(x, ast.AST):
            for f_ in x._fields:
                if f_ in ("ctx",):
                    continue
                if f_ == "name" and isinstance(x, (ast.ExceptHandler, ast.FunctionDef, ast.AsyncFunctionDef, ast.ClassDef)):
                    if top and x.name != y.name:
                        return False
                    continue
                if f_ in ("type_comment",):
                    continue
                if not eq(getattr(x, f_, None), getattr(y, f_, None)):
                    return False
            return True
        if isinstance(x, list):
            return len(x) == len(y) and all(eq(p, q) for p, q in zip(x, y))
        return x == y and type(x) is type(y)

    return eq(a, b, top=True)


def _strip_doc(func):
    f = ast.parse(ast.unparse(func)).body[0]
    if f.body and isinstance(f.body[0], ast.Expr) and isinstance(f.body[0].value, ast.Constant) and isinstance(f.body[0].value.value, str):
        f.body = f.body[1:] or [ast.Pass()]
    return f

"""Harness: ``nv check <id>``, ``nv replay <path>``, ``nv all``, ``nv selftest <id>``."""

from __future__ import annotations

import argparse
import importlib
import json
import os
import sys
import time
import traceback

from .core import VERIF, AnalysisError, Report, Repo, die_analysis, finish

PROPS = [f"C{n:02d}" for n in range(1, 21)]


def load(prop: str):
    try:
        return importlib.import_module(f"nvstatic.props.{prop.lower()}")
    except ModuleNotFoundError as e:
        if e.name and e.name.endswith(prop.lower()):
            return None
        raise


DEFAULT_ROOT = "/repo"


def run_prop(prop: str, repo: Repo, tier: str) -> Report:
    mod = load(prop)
    if mod is None:
        raise AnalysisError(f"no check implemented for {prop}")
    from .decide import decide

    return decide(prop, repo, tier)


def check(prop: str, root: str, tier: str, seed: int) -> int:
    try:
        repo = Repo(root)
        rep = run_prop(prop, repo, tier)
        st = None
        if tier == "thorough":
            from . import selftest

            st = selftest.run_corpus(prop, root, seed)
            rep.extra["sensitivity_corpus"] = st["summary"]
        # evidence and replay files describe /repo; runs against scratch copies (sweeps) leave them alone
        code = finish(rep, seed=seed, write=os.path.realpath(root) == os.path.realpath(DEFAULT_ROOT))
        if st is not None and st["broken"]:
            for line in st["broken"]:
                print("SELFTEST-BROKEN:", line)
            if code == 0:
                print(f"ANALYSIS-ERROR property={prop}: sensitivity corpus disagrees with the checker")
                return 2
        return code
    except AnalysisError as e:
        return die_analysis(prop, str(e))
    except Exception:  # noqa: BLE001
        tb = traceback.format_exc()
        return die_analysis(prop, "internal error\n" + tb)


def replay(path: str, root: str) -> int:
    with open(path, encoding="utf-8") as fh:
        rec = json.load(fh)
    prop = rec["property"]
    try:
        repo = Repo(root)
        rep = run_prop(prop, repo, rec.get("tier", "quick"))
    except AnalysisError as e:
        return die_analysis(prop, str(e))
    hits = [o for o in rep.violations() if o.key == rec["key"]]
    if hits:
        o = hits[0]
        print(f"{o.where}: {o.rule} {o.func}: {o.construct} -- {o.detail}")
        print(f"VIOLATION property={prop} replay={path}")
        return 1
    print(f"{prop}: obligation {rec['key']!r} holds on the current tree")
    return 0


def main(argv=None) -> int:
    ap = argparse.ArgumentParser(prog="nv")
    sub = ap.add_subparsers(dest="cmd", required=True)
    c = sub.add_parser("check")
    c.add_argument("prop")
    c.add_argument("--tier", default=os.environ.get("VERIF_TIER", "quick"))
    c.add_argument("--repo", default=os.environ.get("NV_REPO", "/repo"))
    r = sub.add_parser("replay")
    r.add_argument("path")
    r.add_argument("--repo", default=os.environ.get("NV_REPO", "/repo"))
    a = sub.add_parser("all")
    a.add_argument("--tier", default="quick")
    a.add_argument("--repo", default=os.environ.get("NV_REPO", "/repo"))
    s = sub.add_parser("selftest")
    s.add_argument("prop", nargs="?")
    s.add_argument("--repo", default=os.environ.get("NV_REPO", "/repo"))
    s.add_argument("-v", action="store_true")
    args = ap.parse_args(argv)
    seed = int(os.environ.get("VERIF_SEED", "0") or 0)
    if args.cmd == "check":
        tier = args.tier if args.tier in ("quick", "thorough") else "quick"
        return check(args.prop.upper(), args.repo, tier, seed)
    if args.cmd == "replay":
        return replay(args.path, args.repo)
    if args.cmd == "all":
        worst = 0
        for p in PROPS:
            if load(p) is None:
                continue
            t = time.time()
            code = check(p, args.repo, args.tier, seed)
            print(f"  -> {p} exit {code} ({time.time() - t:.2f}s)")
            worst = max(worst, code)
        return worst
    if args.cmd == "selftest":
        from . import selftest

        props = [args.prop.upper()] if args.prop else [p for p in PROPS if load(p) is not None]
        bad = 0
        for p in props:
            st = selftest.run_corpus(p, args.repo, seed, verbose=args.v)
            print(p, json.dumps(st["summary"]))
            for line in st["broken"]:
                print("  BROKEN:", line)
                bad += 1
        return 2 if bad else 0
    return 2


if __name__ == "__main__":
    sys.exit(main())

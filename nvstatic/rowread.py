"""Semantic model of ``get_storage_buffers_for_row`` (the per-row record splitter).

Facts extracted, independent of the spelling of the loops and of helpers the splitting was moved into:

* ``decode``: how the raw offsets become integers (``array('h', ..)`` or ``unpack('<..h', ..)``): signed 16-bit LE;
* ``scale``: the multiplier applied when the wide flag is set (and that nothing is applied otherwise);
* ``start``: the start of column ``col`` is the (scaled) offset at index ``col``;
* ``empty``: a negative start yields ``None`` for that column;
* ``end``: every value that can become the end of the slice is either ``len(buffer)`` or the first non-negative entry
  of ``offsets[col + 1:]``;
* ``slice``: the record is ``buffer[start:end]``.
"""

from __future__ import annotations

import ast

from .core import AnalysisError, U, body_walk, call_name, last_attr, try_const
from .symexec import subst


def _func_named(repo, rel, name):
    for n in repo.tree(rel).body:
        if isinstance(n, ast.FunctionDef) and n.name == name:
            return n
    return None


def model(repo):
    f = repo.func("model.py", "get_storage_buffers_for_row")
    env = dict(repo.consts)
    params = [a.arg for a in f.args.args]
    if len(params) != 4:
        raise AnalysisError("get_storage_buffers_for_row: parameter list changed")
    buf, raw, ncols, wide = params
    out = {"func": f, "problems": [], "params": params}
    P = out["problems"].append

    # ---- decoded offsets list
    offs_names = set()
    decode = None
    for n in body_walk(f):
        if isinstance(n, ast.Assign) and len(n.targets) == 1 and isinstance(n.targets[0], ast.Name):
            v = n.value
            txt = U(v).replace(" ", "").replace('"', "'")
            if txt in (f"array('h',{raw}).tolist()", f"list(array('h',{raw}))"):
                decode = "array-h"
                offs_names.add(n.targets[0].id)
            elif isinstance(v, ast.Call) and call_name(v) in ("list", "unpack") and "unpack" in txt and "h'" in txt and txt.count(raw) >= 1 and "<" in txt:
                decode = "unpack-h"
                offs_names.add(n.targets[0].id)
    out["decode"] = decode
    if decode is None:
        P("the raw offsets are not decoded as signed 16-bit integers (array('h', ...) or unpack('<..h', ...))")
        raise AnalysisError("get_storage_buffers_for_row: decoding of the offsets not recognised")
    # ---- scaling under the wide flag
    scale = None
    scaled_else = False
    for n in body_walk(f):
        if isinstance(n, ast.If) and U(n.test) == wide:
            for s in n.body:
                if isinstance(s, ast.Assign) and isinstance(s.value, ast.ListComp) and len(s.value.generators) == 1 and U(s.value.generators[0].iter) in offs_names:
                    elt, g = s.value.elt, s.value.generators[0]
                    if isinstance(elt, ast.BinOp) and isinstance(g.target, ast.Name):
                        k = None
                        if isinstance(elt.op, ast.Mult):
                            k = try_const(elt.right, env) if U(elt.left) == g.target.id else (try_const(elt.left, env) if U(elt.right) == g.target.id else None)
                        elif isinstance(elt.op, ast.LShift) and U(elt.left) == g.target.id:
                            sh = try_const(elt.right, env)
                            k = 1 << sh if isinstance(sh, int) else None
                        scale = k
                        offs_names.add(s.targets[0].id)
            scaled_else = bool(n.orelse)
    out["scale"] = scale
    if scaled_else:
        P("the narrow (non-wide) branch also rewrites the offsets")
    # ---- the column loop
    loops = [n for n in f.body if isinstance(n, ast.For)]
    if len(loops) != 1:
        raise AnalysisError("get_storage_buffers_for_row: the column loop not found")
    loop = loops[0]
    col = start_name = None
    it = loop.iter
    if isinstance(loop.target, ast.Name) and isinstance(it, ast.Call) and call_name(it) == "range":
        col = loop.target.id
        st = [n for n in loop.body if isinstance(n, ast.Assign) and isinstance(n.value, ast.Subscript) and U(n.value.value) in offs_names and U(n.value.slice) == col]
        if st:
            start_name = U(st[0].targets[0])
    elif isinstance(loop.target, ast.Tuple) and len(loop.target.elts) == 2 and isinstance(it, ast.Call) and call_name(it) in ("zip", "enumerate"):
        a = it.args
        if call_name(it) == "zip" and len(a) == 2 and isinstance(a[0], ast.Call) and call_name(a[0]) == "range" and U(a[1]) in offs_names:
            col, start_name = U(loop.target.elts[0]), U(loop.target.elts[1])
        elif call_name(it) == "enumerate" and len(a) == 1 and (U(a[0]) in offs_names or (isinstance(a[0], ast.Subscript) and U(a[0].value) in offs_names
                                                                                    and isinstance(a[0].slice, ast.Slice) and a[0].slice.lower is None)):
            col, start_name = U(loop.target.elts[0]), U(loop.target.elts[1])
    if col is None or start_name is None:
        raise AnalysisError("get_storage_buffers_for_row: `start = offsets[col]` not recognised")
    out["col"], out["start"] = col, start_name
    # ---- empty cells
    emp = [n for n in ast.walk(loop) if isinstance(n, ast.If) and U(n.test).replace(" ", "") in (f"{start_name}<0", f"0>{start_name}")]
    ok = bool(emp) and any(isinstance(c, ast.Call) and last_attr(c.func) == "append" and c.args and try_const(c.args[0], default=0) is None and isinstance(c.args[0], ast.Constant)
                           for s in emp[0].body for c in ast.walk(s))
    out["empty_ok"] = ok
    if not ok:
        P(f"a negative offset does not produce None for the column (`if {start_name} < 0: append(None)` not found)")
    # ---- the slice
    sl = [n for n in ast.walk(loop) if isinstance(n, ast.Subscript) and U(n.value) == buf and isinstance(n.slice, ast.Slice)]
    if len(sl) != 1 or sl[0].slice.lower is None or sl[0].slice.upper is None or U(sl[0].slice.lower) != start_name:
        raise AnalysisError(f"get_storage_buffers_for_row: `{buf}[{start_name}:end]` not recognised")
    end_expr = sl[0].slice.upper
    out["slice"] = sl[0]

    # ---- provenance of the end
    cands = []  # (kind, node)

    def classify_value(v, scope_func, mapping, where):
        """One value that can flow into the end."""
        v2 = subst(v, mapping) if mapping else v
        t = U(v2).replace(" ", "")
        if t == f"len({buf})":
            return ("eob", v)
        if isinstance(v, ast.Constant) and v.value is None:
            return ("none", v)
        # next((x for x in offsets[col+1:] if x >= 0), <default>): the first non-negative following offset, else the default
        if isinstance(v2, ast.Call) and call_name(v2) == "next" and v2.args and isinstance(v2.args[0], ast.GeneratorExp) and len(v2.args[0].generators) == 1 and not v2.keywords:
            g = v2.args[0].generators[0]
            base_ = g.iter
            tail_ = isinstance(base_, ast.Subscript) and isinstance(base_.slice, ast.Slice) and U(base_.value) in offs_names and base_.slice.upper is None \
                and base_.slice.lower is not None and U(base_.slice.lower).replace(" ", "") in (f"{col}+1", f"1+{col}") and base_.slice.step is None
            if not tail_ and isinstance(base_, ast.Subscript) and U(base_.value) in offs_names:
                return ("wrong-range", v)
            if tail_ and isinstance(g.target, ast.Name) and U(v2.args[0].elt) == g.target.id:
                x_ = g.target.id
                guarded_ = len(g.ifs) == 1 and U(g.ifs[0]).replace(" ", "") in (f"{x_}>=0", f"0<={x_}", f"{x_}>-1")
                kinds_ = ["next" if guarded_ else "unguarded"]
                if len(v2.args) == 2:
                    d_ = U(v2.args[1]).replace(" ", "")
                    kinds_.append("eob" if d_ == f"len({buf})" else ("none" if d_ == "None" else "?"))
                else:
                    kinds_.append("?")  # StopIteration when nothing follows
                return ("+".join(kinds_), v)
        # an element of offsets[col+1:] guarded by `>= 0`, first match
        p = where
        loop_ = None
        while getattr(p, "_parent", None) is not None:
            p = p._parent
            if isinstance(p, ast.For):
                loop_ = p
                break
            if isinstance(p, ast.FunctionDef):
                break
        if loop_ is None:
            return ("?", v)
        it_ = subst(loop_.iter, mapping) if mapping else loop_.iter
        base = it_
        enum = False
        if isinstance(base, ast.Call) and call_name(base) == "enumerate" and len(base.args) == 1:
            base, enum = base.args[0], True
        tail = isinstance(base, ast.Subscript) and isinstance(base.slice, ast.Slice) and U(base.value) in offs_names and base.slice.upper is None \
            and base.slice.lower is not None and U(base.slice.lower).replace(" ", "") in (f"{col}+1", f"1+{col}")
        if not tail:
            return ("?", v)
        if enum:
            i_name, x_name = U(loop_.target.elts[0]), U(loop_.target.elts[1])
        else:
            i_name, x_name = None, U(loop_.target)
        is_elem = t == x_name or (i_name is not None and isinstance(v2, ast.Subscript) and U(v2.value) in offs_names
                                  and U(v2.slice).replace(" ", "") in (f"{col}+{i_name}+1", f"{col}+1+{i_name}", f"{i_name}+{col}+1", f"1+{col}+{i_name}"))
        if not is_elem:
            return ("?", v)
        # guarded by `x >= 0` and followed by break/return (first match wins)
        guard = None
        q = where
        while q is not loop_ and getattr(q, "_parent", None) is not None:
            q = q._parent
            if isinstance(q, ast.If) and U(q.test).replace(" ", "") in (f"{x_name}>=0", f"0<={x_name}", f"{x_name}>-1"):
                guard = q
        if guard is None:
            return ("unguarded", v)
        stmt = where
        while not isinstance(stmt, ast.stmt):
            stmt = stmt._parent
        blk = guard.body
        first = isinstance(stmt, ast.Return) or (stmt in blk and blk.index(stmt) + 1 < len(blk) and isinstance(blk[blk.index(stmt) + 1], ast.Break))
        return ("next" if first else "not-first", v)

    def collect(expr, scope_func, mapping, depth=0):
        if isinstance(expr, ast.Name):
            defs = [n for n in ast.walk(scope_func) if isinstance(n, ast.Assign) and len(n.targets) == 1 and U(n.targets[0]) == expr.id]
            if not defs:
                cands.append(("?", expr))
            for d in defs:
                if isinstance(d.value, ast.Call) and isinstance(d.value.func, ast.Name) and depth < 2:
                    h = _func_named(repo, "model.py", d.value.func.id)
                    if h is not None:
                        hp = [a.arg for a in h.args.args]
                        if len(hp) != len(d.value.args) or d.value.keywords:
                            cands.append(("?", d.value))
                            continue
                        m2 = {p_: (subst(a_, mapping) if mapping else a_) for p_, a_ in zip(hp, d.value.args)}
                        for r in [x for x in ast.walk(h) if isinstance(x, ast.Return) and x.value is not None]:
                            cands.append(classify_value(r.value, h, m2, r))
                        continue
                cands.append(classify_value(d.value, scope_func, mapping, d))
        else:
            cands.append(classify_value(expr, scope_func, mapping, expr))

    collect(end_expr, f, {})
    kinds = {k2 for k, _ in cands for k2 in k.split("+")}
    out["end_kinds"] = sorted(kinds)
    if "?" in kinds:
        raise AnalysisError(f"get_storage_buffers_for_row: a value flowing into the end of the record is not recognised: {[U(n) for k, n in cands if '?' in k.split('+')][:2]}")
    if "wrong-range" in kinds:
        P(f"the next offset is searched in `{[U(n) for k, n in cands if 'wrong-range' in k][0][:70]}`, not in the offsets after the cell's own: the record ends at its own start or at an earlier cell")
    if "unguarded" in kinds:
        P("the next offset is taken without checking that it is non-negative: an empty column after the cell ends the record at a negative index")
    if "not-first" in kinds:
        P("the search does not stop at the first non-negative offset: the record runs over the following cells")
    if "next" not in kinds:
        P("the end of a record never comes from the following offsets: every record runs to the end of the buffer")
    if "eob" not in kinds:
        P("the end of the last record of a row is never the end of the buffer")
    if "none" in kinds:
        # placeholder must be replaced by the end of the buffer
        fix = [n for n in ast.walk(f) if isinstance(n, ast.If) and U(n.test).replace(" ", "") == f"{U(end_expr)}isNone"]
        if not fix:
            P("a missing next offset leaves the end as None without falling back to the end of the buffer")
    return out

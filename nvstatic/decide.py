"""Run one property's rules; when they alarm (or cannot read a shape), try translation validation against the reference.

The rules look at how the code is spelled.  An alarm on a tree every consulted function of which is *proven equivalent*
to the reference the rules were confirmed against is a false alarm by construction, so in that case — and only then —
the verdict is taken from the reference tree and the proof obligations discharged are listed in the evidence.
"""

from __future__ import annotations

import importlib

from .core import AnalysisError, Report, Repo, load_known


def _load(prop):
    return importlib.import_module(f"nvstatic.props.{prop.lower()}")


def _run(mod, prop, repo, tier):
    rep = Report(prop=prop, tier=tier, repo=repo)
    rep.explanation = getattr(mod, "EXPLANATION", "")
    rep.trusted = list(getattr(mod, "TRUSTED", ["python ast"]))
    rep.assumptions = list(getattr(mod, "ASSUMPTIONS", []))
    err = None
    try:
        mod.run(repo, rep, tier)
    except AnalysisError as e:
        err = e
    except Exception as e:  # noqa: BLE001 -- a rule that trips over a shape it does not know is an unreadable shape, not a verdict
        import traceback
        tb = traceback.extract_tb(e.__traceback__)
        where = f"{tb[-1].filename.rsplit('/', 1)[-1]}:{tb[-1].lineno}" if tb else "?"
        err = AnalysisError(f"internal error in a rule ({type(e).__name__}: {e} at {where})")
    return rep, err


def decide(prop: str, repo: Repo, tier: str = "quick"):
    """Report for ``prop`` on ``repo``.  Raises AnalysisError when the rules cannot read the tree and it is not proven
    equivalent to the reference."""
    mod = _load(prop)
    rep, err = _run(mod, prop, repo, tier)
    open_keys = {e["key"] for e in load_known().get("open", []) if e.get("property") == prop}
    unlisted = [o for o in rep.violations() if o.key not in open_keys]
    floors = [r for r, m in rep.floors.items() if rep.count(r) < m]
    if err is None and not unlisted and not rep.deferred and not floors:
        return rep
    from . import refcheck

    try:
        eq = refcheck.compare(repo, repo.consulted)
    except Exception as e:  # noqa: BLE001
        eq = {"equivalent": False, "blocking": [f"comparison failed: {type(e).__name__}: {e}"], "functions_proven": []}
    if eq["equivalent"]:
        ref_repo = refcheck.reference_repo(repo.root)
        rep2, err2 = _run(mod, prop, ref_repo, tier)
        if err2 is None:
            rep2.extra["discharged_by_equivalence"] = {
                "reference_head": eq.get("reference_head"),
                "functions_proven_equivalent": eq["functions_proven"],
                "new_functions": eq.get("new_functions", []),
                "modules_compared": eq["modules"],
                "alarms_discharged": sorted({o.key for o in unlisted}) + ([f"analysis-error: {err}"] if err else []) + [f"deferred: {d}" for d in rep.deferred],
                "rule": "every function and module-level table consulted is textually unchanged or proven equivalent (canonical effect sequences, "
                        "propositional comparison of branch conditions) to the reference tree; the reference's verdict applies",
            }
            rep2.notes = [f"NOTE: {len(unlisted)} alarm(s) of the spelling-level rules discharged: {len(eq['functions_proven'])} changed function(s) proven equivalent to the reference "
                          f"({', '.join(eq['functions_proven'][:6])}{'...' if len(eq['functions_proven']) > 6 else ''})"]
            return rep2
    # not everything is equivalent: judge a hybrid tree in which the changed functions that *are* proven equivalent to the
    # reference take their reference spelling (same behaviour as the current tree), the others stay as they are
    try:
        overlay, proven, not_proven = refcheck.hybrid_overlay(repo, repo.consulted)
    except Exception as e:  # noqa: BLE001
        overlay, proven, not_proven = None, [], [f"hybrid failed: {type(e).__name__}: {e}"]
    if overlay is not None and proven:
        hyb = Repo(repo.root, overlay=overlay)
        rep3, err3 = _run(mod, prop, hyb, tier)
        unl3 = [o for o in rep3.violations() if o.key not in open_keys]
        better = (err3 is None) and (err is not None or len({o.key for o in unl3}) < len({o.key for o in unlisted}) or (rep.deferred and not rep3.deferred))
        if better:
            gone = sorted({o.key for o in unlisted} - {o.key for o in unl3})
            rep3.extra["discharged_by_equivalence"] = {
                "functions_proven_equivalent": proven,
                "functions_not_proven": not_proven[:10],
                "alarms_discharged": gone + ([f"analysis-error: {err}"] if err else []),
                "rule": "the verdict is taken on a hybrid tree: functions proven equivalent to their reference version (canonical effect sequences) are "
                        "replaced by that version; all other functions are judged as they stand",
            }
            rep3.notes = [f"NOTE: {len(gone)} alarm(s) discharged on a hybrid tree: {len(proven)} changed function(s) proven equivalent to the reference "
                          f"({', '.join(proven[:5])}{'...' if len(proven) > 5 else ''}); line numbers below refer to the hybrid source"]
            return rep3
    rep.extra["equivalence_attempt"] = {"equivalent": False, "blocking": eq.get("blocking", [])[:8]}
    if err is not None:
        raise err
    return rep

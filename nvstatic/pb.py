"""E8 (part): protobuf descriptors decoded from the ``AddSerializedFile(b'...')`` literal of
``generated/*_pb2.py`` — the modules themselves are never imported."""

from __future__ import annotations

import ast

from .core import SRC, AnalysisError, Repo

_CACHE: dict = {}


def file_descriptor(repo: Repo, module: str):
    """FileDescriptorProto of e.g. ``TSTArchives`` (module name without ``_pb2``)."""
    key = (repo.root, module, id(repo.overlay))
    if key in _CACHE:
        return _CACHE[key]
    try:
        from google.protobuf import descriptor_pb2
    except Exception as e:  # noqa: BLE001
        raise AnalysisError(f"google.protobuf not importable in this interpreter: {e}") from e
    rel = f"{SRC}/generated/{module}_pb2.py"
    tree = ast.parse(repo.source(rel))
    blob = None
    for n in ast.walk(tree):
        if isinstance(n, ast.Call) and getattr(n.func, "attr", "") == "AddSerializedFile":
            if n.args and isinstance(n.args[0], ast.Constant) and isinstance(n.args[0].value, bytes):
                blob = n.args[0].value
    if blob is None:
        raise AnalysisError(f"no serialized descriptor literal in {rel}")
    fd = descriptor_pb2.FileDescriptorProto()
    fd.ParseFromString(blob)
    _CACHE[key] = fd
    return fd


def enum_values(repo: Repo, module: str) -> dict:
    """All enum value names (top level and nested) -> number."""
    fd = file_descriptor(repo, module)
    out = {}

    def walk_msg(m):
        for e in m.enum_type:
            for v in e.value:
                out[v.name] = v.number
                out[f"{e.name}.{v.name}"] = v.number
        for nm in m.nested_type:
            walk_msg(nm)

    for e in fd.enum_type:
        for v in e.value:
            out[v.name] = v.number
            out[f"{e.name}.{v.name}"] = v.number
    for m in fd.message_type:
        walk_msg(m)
    return out


def enum_named(repo: Repo, module: str, enum_name: str) -> dict:
    fd = file_descriptor(repo, module)
    found = {}

    def walk_msg(m):
        for e in m.enum_type:
            if e.name == enum_name:
                for v in e.value:
                    found[v.name] = v.number
        for nm in m.nested_type:
            walk_msg(nm)

    for e in fd.enum_type:
        if e.name == enum_name:
            for v in e.value:
                found[v.name] = v.number
    for m in fd.message_type:
        walk_msg(m)
    return found


def message(repo: Repo, module: str, path: str):
    """DescriptorProto for ``Outer.Inner``."""
    fd = file_descriptor(repo, module)
    parts = path.split(".")
    scope = fd.message_type
    msg = None
    for p in parts:
        msg = next((m for m in scope if m.name == p), None)
        if msg is None:
            raise AnalysisError(f"message {path} not in {module}")
        scope = msg.nested_type
    return msg


def field_names(repo: Repo, module: str, path: str) -> dict:
    """field name -> (number, label, type, type_name)"""
    m = message(repo, module, path)
    return {f.name: (f.number, f.label, f.type, f.type_name) for f in m.field}

#!/venv/bin/python
"""Re-run every check against every stored behaviour-preserving refactoring (twins/): none may raise an alarm.
usage: twinsweep.py [prefix] [-v]"""
import json, os, subprocess, sys
VERIF = os.path.dirname(os.path.dirname(os.path.abspath(__file__)))
def sh(cmd, cwd=None):
    p = subprocess.run(cmd, shell=True, cwd=cwd, capture_output=True, text=True)
    return p.returncode, p.stdout + p.stderr
def main():
    args = [a for a in sys.argv[1:] if not a.startswith("-")]
    verbose = "-v" in sys.argv
    prefix = args[0] if args else ""
    rc, out = sh("git -C /repo status --porcelain")
    if out.strip():
        print("refusing: /repo has uncommitted changes"); return 1
    tdir = os.path.join(VERIF, "twins")
    bad = 0; total = 0
    for name in sorted(os.listdir(tdir)):
        d = os.path.join(tdir, name)
        if not os.path.isdir(d) or not name.startswith(prefix): continue
        total += 1
        rc, o = sh(f"git -C /repo apply {d}/patch.diff")
        if rc != 0:
            print(f"{name}: PATCH DOES NOT APPLY"); bad += 1; continue
        try:
            rc, o = sh("./nv all", cwd=VERIF)
        finally:
            sh("git -C /repo checkout -- .")
        fired = sorted({l.split()[1].split("=")[1] for l in o.splitlines() if l.startswith("VIOLATION property=")})
        errs = [l for l in o.splitlines() if l.startswith("ANALYSIS-ERROR")]
        lines = [l for l in o.splitlines() if ": C" in l and " -- " in l]
        mp = os.path.join(d, "meta.json")
        meta = json.load(open(mp)) if os.path.exists(mp) else {}
        meta["alarms"] = fired; meta["analysis_errors"] = [e[:300] for e in errs]; meta["alarm_lines"] = lines[:12]
        json.dump(meta, open(mp, "w"), indent=1)
        status = "silent" if not fired and not errs else "ALARM"
        if status == "ALARM": bad += 1
        print(f"{name:8s} {status:6s} alarms={fired} errors={len(errs)}")
        if verbose or status == "ALARM":
            for l in lines[:6]: print("      ", l[:260])
            for e in errs: print("      ", e[:260])
    print(f"{total - bad}/{total} twins silent")
    return 0
if __name__ == "__main__":
    sys.exit(main())

#!/venv/bin/python
"""Why is a stored twin (or seed) not proven equivalent to the reference?  usage: eqwhy.py twins/C12-A [more...]"""
import os, shutil, subprocess, sys
VERIF = os.path.dirname(os.path.dirname(os.path.abspath(__file__)))
sys.path.insert(0, VERIF)
from nvstatic.core import Repo
from nvstatic import refcheck
for arg in sys.argv[1:]:
    d = os.path.join(VERIF, arg)
    scratch = f"/tmp/scratch/eq_{arg.replace('/', '_')}"
    shutil.rmtree(scratch, ignore_errors=True); os.makedirs(scratch)
    subprocess.run(f"cp -r /repo/src {scratch}/src && cp -r /repo/docs {scratch}/docs && cd {scratch} && git apply -p1 {d}/patch.diff", shell=True, check=True)
    try:
        r = Repo(scratch)
        res = refcheck.compare(r, None)
        print(arg, "equivalent" if res["equivalent"] else "NOT PROVEN", "proven:", res["functions_proven"], "new:", res["new_functions"])
        for b in res["blocking"]:
            print("    ", b)
    finally:
        shutil.rmtree(scratch, ignore_errors=True)

#!/venv/bin/python
"""Mechanical behaviour-preserving rewrites of the repository sources, to find rules that depend on spelling.

Each transformation is semantics-preserving by construction (no tests needed):

  rename   every local variable (not parameters, not globals/nonlocals, not names captured by nested functions) of
           every function gets a new name;
  flipif   ``if c: A else: B``  ->  ``if not c: B else: A``  (plain if/else only, never an elif chain);
  flipexp  ``a if c else b``    ->  ``b if not c else a``;
  guard    a function whose last statement is ``if c: A`` (no else)  ->  ``if not c: return None`` followed by A.

usage: autotwins.py [kind ...] [--file=model.py] [-v]
For every (kind, source file) a scratch copy of the sources is rewritten (that file only) and every check is run on it
(8 at a time).  Any VIOLATION or ANALYSIS-ERROR is a false alarm of the checks.  With --func the rewrite is restricted
to one function (for bisecting).
"""
import ast
import builtins
import os
import shutil
import subprocess
import sys
from concurrent.futures import ProcessPoolExecutor

VERIF = os.path.dirname(os.path.dirname(os.path.abspath(__file__)))
SRC = "/repo/src/numbers_parser"
SKIP_FILES = {"generated", "__pycache__"}


def scope_nodes(func):
    """Nodes of the function's own scope (nested function / class / lambda bodies excluded; comprehensions included)."""
    out = []
    stack = list(func.body)
    while stack:
        n = stack.pop()
        out.append(n)
        for c in ast.iter_child_nodes(n):
            if isinstance(c, (ast.FunctionDef, ast.AsyncFunctionDef, ast.ClassDef, ast.Lambda)):
                out.append(c)  # the def itself (its name binding) but not its body
                continue
            stack.append(c)
    return out


def rename_locals(tree, only=None):
    changed = 0
    for f in [n for n in ast.walk(tree) if isinstance(n, (ast.FunctionDef, ast.AsyncFunctionDef))]:
        if only and f.name != only:
            continue
        if any(isinstance(n, (ast.FunctionDef, ast.AsyncFunctionDef, ast.ClassDef, ast.Lambda)) for b in f.body for n in ast.walk(b)):
            continue
        nodes = scope_nodes(f)
        if any(isinstance(n, ast.Call) and isinstance(n.func, ast.Name) and n.func.id in ("locals", "vars", "eval", "exec") for n in nodes):
            continue
        params = {a.arg for a in f.args.posonlyargs + f.args.args + f.args.kwonlyargs}
        if f.args.vararg:
            params.add(f.args.vararg.arg)
        if f.args.kwarg:
            params.add(f.args.kwarg.arg)
        declared = set()
        imported = set()
        for n in nodes:
            if isinstance(n, (ast.Global, ast.Nonlocal)):
                declared |= set(n.names)
            if isinstance(n, (ast.Import, ast.ImportFrom)):
                imported |= {(a.asname or a.name).split(".")[0] for a in n.names}
        stored = {n.id for n in nodes if isinstance(n, ast.Name) and isinstance(n.ctx, (ast.Store, ast.Del))}
        stored |= {n.name for n in nodes if isinstance(n, ast.ExceptHandler) and n.name}
        names = stored - params - declared - imported - {"_", "__class__"}
        if not names:
            continue
        ren = {nm: f"{nm}_zq" for nm in names}
        for n in nodes:
            if isinstance(n, ast.Name) and n.id in ren:
                n.id = ren[n.id]
            elif isinstance(n, ast.ExceptHandler) and n.name in ren:
                n.name = ren[n.name]
        changed += len(names)
    return changed


def flip_if(tree, only=None):
    changed = 0
    chain_members = set()
    for n in ast.walk(tree):
        if isinstance(n, ast.If) and len(n.orelse) == 1 and isinstance(n.orelse[0], ast.If):
            chain_members.add(id(n))
            chain_members.add(id(n.orelse[0]))
    funcs = [n for n in ast.walk(tree) if isinstance(n, (ast.FunctionDef, ast.AsyncFunctionDef)) and (not only or n.name == only)]
    for f in funcs:
        for n in ast.walk(f):
            if isinstance(n, ast.If) and n.orelse and id(n) not in chain_members:
                n.test = ast.UnaryOp(op=ast.Not(), operand=n.test)
                n.body, n.orelse = n.orelse, n.body
                changed += 1
    return changed


def flip_ifexp(tree, only=None):
    changed = 0
    funcs = [n for n in ast.walk(tree) if isinstance(n, (ast.FunctionDef, ast.AsyncFunctionDef)) and (not only or n.name == only)]
    seen = set()
    for f in funcs:
        for n in ast.walk(f):
            if isinstance(n, ast.IfExp) and id(n) not in seen:
                seen.add(id(n))
                n.test = ast.UnaryOp(op=ast.Not(), operand=n.test)
                n.body, n.orelse = n.orelse, n.body
                changed += 1
    return changed


def guard_tail(tree, only=None):
    changed = 0
    for f in [n for n in ast.walk(tree) if isinstance(n, (ast.FunctionDef, ast.AsyncFunctionDef)) and (not only or n.name == only)]:
        last = f.body[-1]
        if isinstance(last, ast.If) and not last.orelse and len(f.body) >= 1:
            g = ast.If(test=ast.UnaryOp(op=ast.Not(), operand=last.test), body=[ast.Return(value=ast.Constant(None))], orelse=[])
            f.body = f.body[:-1] + [g] + last.body
            changed += 1
    return changed


def hoist_returns(tree, only=None):
    """``return <call or operation>``  ->  ``result_zq = <...>`` then ``return result_zq``."""
    changed = 0
    for f in [n for n in ast.walk(tree) if isinstance(n, (ast.FunctionDef, ast.AsyncFunctionDef)) and (not only or n.name == only)]:
        if any(isinstance(n, (ast.Yield, ast.YieldFrom)) for n in ast.walk(f)):
            continue

        def block(stmts):
            nonlocal changed
            out = []
            for st in stmts:
                for fld in ("body", "orelse", "finalbody"):
                    blk = getattr(st, fld, None)
                    if isinstance(blk, list) and blk and isinstance(blk[0], ast.stmt) and not isinstance(st, (ast.FunctionDef, ast.AsyncFunctionDef, ast.ClassDef)):
                        setattr(st, fld, block(blk))
                for h in getattr(st, "handlers", []) or []:
                    h.body = block(h.body)
                if isinstance(st, ast.Return) and isinstance(st.value, (ast.Call, ast.BinOp, ast.Subscript, ast.JoinedStr, ast.IfExp, ast.Compare)):
                    out.append(ast.Assign(targets=[ast.Name(id="result_zq", ctx=ast.Store())], value=st.value))
                    out.append(ast.Return(value=ast.Name(id="result_zq", ctx=ast.Load())))
                    changed += 1
                else:
                    out.append(st)
            return out

        f.body = block(f.body)
    return changed


def name_constants(tree, only=None):
    """Integer literals >= 2 inside functions become new module-level constants."""
    consts = {}
    changed = 0

    class T(ast.NodeTransformer):
        def visit_Constant(self, node):
            nonlocal changed
            if isinstance(node.value, int) and not isinstance(node.value, bool) and node.value >= 2:
                nm = f"_K_ZQ_{node.value}"
                consts[nm] = node.value
                changed += 1
                return ast.copy_location(ast.Name(id=nm, ctx=ast.Load()), node)
            return node

        def visit_JoinedStr(self, node):
            return node  # format specs stay literal

    for f in [n for n in ast.walk(tree) if isinstance(n, (ast.FunctionDef, ast.AsyncFunctionDef)) and (not only or n.name == only)]:
        for i, b in enumerate(f.body):
            f.body[i] = T().visit(b)
    # after the imports / module docstring
    pos = 0
    for i, n in enumerate(tree.body):
        if isinstance(n, (ast.Import, ast.ImportFrom)) or (isinstance(n, ast.Expr) and isinstance(n.value, ast.Constant)):
            pos = i + 1
    for nm, v in sorted(consts.items()):
        tree.body.insert(pos, ast.Assign(targets=[ast.Name(id=nm, ctx=ast.Store())], value=ast.Constant(v)))
    return changed


def drop_else_after_return(tree, only=None):
    """``if c: ...return/raise`` + ``else: B``  ->  ``if c: ...`` followed by B."""
    changed = 0

    def terminates(stmts):
        if not stmts:
            return False
        last = stmts[-1]
        if isinstance(last, (ast.Return, ast.Raise, ast.Continue, ast.Break)):
            return True
        if isinstance(last, ast.If) and last.orelse:
            return terminates(last.body) and terminates(last.orelse)
        return False

    def block(stmts):
        nonlocal changed
        out = []
        for st in stmts:
            for fld in ("body", "orelse", "finalbody"):
                blk = getattr(st, fld, None)
                if isinstance(blk, list) and blk and isinstance(blk[0], ast.stmt) and not isinstance(st, (ast.FunctionDef, ast.AsyncFunctionDef, ast.ClassDef)):
                    setattr(st, fld, block(blk))
            for h in getattr(st, "handlers", []) or []:
                h.body = block(h.body)
            if isinstance(st, ast.If) and st.orelse and terminates(st.body) and not (len(st.orelse) == 1 and isinstance(st.orelse[0], ast.If)):
                rest = st.orelse
                st.orelse = []
                out.append(st)
                out.extend(rest)
                changed += 1
            else:
                out.append(st)
        return out

    for f in [n for n in ast.walk(tree) if isinstance(n, (ast.FunctionDef, ast.AsyncFunctionDef)) and (not only or n.name == only)]:
        f.body = block(f.body)
    return changed


KINDS = {"rename": rename_locals, "flipif": flip_if, "flipexp": flip_ifexp, "guard": guard_tail, "hoistret": hoist_returns, "constants": name_constants,
         "unelse": drop_else_after_return}


def sh(cmd, cwd=None):
    p = subprocess.run(cmd, shell=True, cwd=cwd, capture_output=True, text=True)
    return p.returncode, p.stdout + p.stderr


def one(job):
    kind, rel, only = job
    scratch = f"/tmp/scratch/at_{kind}_{rel.replace('/', '_')}_{only or 'all'}"
    shutil.rmtree(scratch, ignore_errors=True)
    os.makedirs(scratch)
    try:
        sh(f"cp -r /repo/src {scratch}/src && cp -r /repo/docs {scratch}/docs")
        path = f"{scratch}/src/numbers_parser/{rel}"
        src = open(path).read()
        tree = ast.parse(src)
        n = KINDS[kind](tree, only)
        if n == 0:
            return kind, rel, only, 0, [], [], []
        ast.fix_missing_locations(tree)
        new = ast.unparse(tree)
        compile(new, path, "exec")
        open(path, "w").write(new + "\n")
        rc, o = sh(f"./nv all --repo {scratch}", cwd=VERIF)
    finally:
        shutil.rmtree(scratch, ignore_errors=True)
    fired = sorted({l.split()[1].split("=")[1] for l in o.splitlines() if l.startswith("VIOLATION property=")})
    errs = [l for l in o.splitlines() if l.startswith("ANALYSIS-ERROR")]
    lines = [l.replace(scratch + "/", "") for l in o.splitlines() if ": C" in l and " -- " in l]
    return kind, rel, only, n, fired, errs, lines


def main():
    args = [a for a in sys.argv[1:] if not a.startswith("-")]
    kinds = [a for a in args if a in KINDS] or list(KINDS)
    only_file = next((a.split("=")[1] for a in sys.argv if a.startswith("--file=")), None)
    only_func = next((a.split("=")[1] for a in sys.argv if a.startswith("--func=")), None)
    per_func = "--per-func" in sys.argv
    verbose = "-v" in sys.argv
    files = sorted(f for f in os.listdir(SRC) if f.endswith(".py") and f != "__init__.py")
    if only_file:
        files = [only_file]
    jobs = []
    for k in kinds:
        for f in files:
            if per_func:
                tree = ast.parse(open(f"{SRC}/{f}").read())
                names = sorted({n.name for n in ast.walk(tree) if isinstance(n, (ast.FunctionDef, ast.AsyncFunctionDef))})
                jobs += [(k, f, nm) for nm in names]
            else:
                jobs.append((k, f, only_func))
    os.makedirs("/tmp/scratch", exist_ok=True)
    with ProcessPoolExecutor(max_workers=8) as ex:
        results = list(ex.map(one, jobs))
    bad = 0
    for kind, rel, only, n, fired, errs, lines in results:
        if n == 0:
            continue
        ok = not fired and not errs
        bad += not ok
        if ok and not verbose:
            continue
        rules = sorted({l.split(": ", 1)[1].split(" ")[0] for l in lines if ": C" in l})
        print(f"{kind:8s} {rel:22s} {only or '':28s} sites={n:4d} {'silent' if ok else 'ALARM'} fired={','.join(fired)} rules={','.join(rules)[:80]} errors={len(errs)}")
        if not ok:
            for l in lines[:6]:
                print("      ", l[:260])
            for e in errs[:3]:
                print("      ", e[:260])
    print(f"{sum(1 for r in results if r[3])} variants, {bad} with alarms")
    return 1 if bad else 0


if __name__ == "__main__":
    sys.exit(main())

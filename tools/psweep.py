#!/venv/bin/python
"""Parallel sweep: run every check against every stored seeded regression (seeded/) or refactoring twin (twins/),
each applied to its own scratch copy of the repository sources (never to /repo), 8 at a time.

usage: psweep.py seeds|twins [prefix] [-v]
Seeds must be reported by at least one check (VIOLATION); twins must not be reported by any (no VIOLATION, no
ANALYSIS-ERROR).  Scratch copies live under /tmp/scratch/sw_* and are removed as soon as the run finishes.
"""
import json
import os
import shutil
import subprocess
import sys
from concurrent.futures import ProcessPoolExecutor

VERIF = os.path.dirname(os.path.dirname(os.path.abspath(__file__)))


def sh(cmd, cwd=None):
    p = subprocess.run(cmd, shell=True, cwd=cwd, capture_output=True, text=True)
    return p.returncode, p.stdout + p.stderr


def one(job):
    kind, name = job
    d = os.path.join(VERIF, "seeded" if kind == "seeds" else "twins", name)
    scratch = f"/tmp/scratch/sw_{kind}_{name}"
    shutil.rmtree(scratch, ignore_errors=True)
    os.makedirs(scratch)
    try:
        sh(f"cp -r /repo/src {scratch}/src && cp -r /repo/docs {scratch}/docs")
        rc, o = sh(f"git apply -p1 {d}/patch.diff", cwd=scratch)
        if rc != 0:
            return name, None, [], [], "PATCH DOES NOT APPLY: " + o[:200]
        rc, o = sh(f"./nv all --repo {scratch}", cwd=VERIF)
    finally:
        shutil.rmtree(scratch, ignore_errors=True)
    fired = sorted({l.split()[1].split("=")[1] for l in o.splitlines() if l.startswith("VIOLATION property=")})
    errs = [l for l in o.splitlines() if l.startswith("ANALYSIS-ERROR")]
    lines = [l.replace(scratch + "/", "") for l in o.splitlines() if ": C" in l and " -- " in l]
    notes = [l for l in o.splitlines() if l.startswith("NOTE:") and "discharged" in l]
    return name, fired, errs, lines, notes


def main():
    kind = sys.argv[1]
    args = [a for a in sys.argv[2:] if not a.startswith("-")]
    verbose = "-v" in sys.argv
    prefix = args[0] if args else ""
    base = os.path.join(VERIF, "seeded" if kind == "seeds" else "twins")
    names = sorted(n for n in os.listdir(base) if os.path.isdir(os.path.join(base, n)) and n.startswith(prefix))
    os.makedirs("/tmp/scratch", exist_ok=True)
    with ProcessPoolExecutor(max_workers=8) as ex:
        results = list(ex.map(one, [(kind, n) for n in names]))
    good = 0
    for name, fired, errs, lines, notes in results:
        if fired is None:
            print(f"{name:10s} {notes}")
            continue
        if kind == "seeds":
            ok = bool(fired)
            status = "caught" if ok else "MISSED"
        else:
            ok = not fired and not errs
            status = "silent" if ok else "ALARM"
        good += ok
        rules = sorted({l.split(": ", 1)[1].split(" ")[0] for l in lines if ": C" in l})
        print(f"{name:10s} {status:6s} fired={','.join(fired) or '-':14s} rules={','.join(rules)[:60]} errors={len(errs)}" + (f" discharged={len(notes)}" if notes else ""))
        if verbose or not ok:
            for l in lines[:5]:
                print("      ", l[:250])
            for e in errs[:3]:
                print("      ", e[:250])
        mp = os.path.join(base, name, "meta.json")
        if os.path.exists(mp):
            meta = json.load(open(mp))
            if kind == "seeds":
                meta["checks_fired"], meta["rules_fired"], meta["analysis_errors"] = fired, rules, [e[:300] for e in errs]
            else:
                meta["alarms"], meta["analysis_errors"], meta["alarm_lines"] = fired, [e[:300] for e in errs], lines[:12]
                meta["discharged_by_equivalence"] = notes[:20]
            json.dump(meta, open(mp, "w"), indent=1)
    print(f"{good}/{len(results)} {'seeds caught' if kind == 'seeds' else 'twins silent'}")
    if not prefix:
        write_summary(kind, base, results, good)
    return 0


def write_summary(kind, base, results, good):
    lines = []
    if kind == "seeds":
        lines += ["# Seeded regressions and the checks that catch them", "",
                  "Each row: a change written by a fresh sub-agent that saw only the property text and a scratch worktree; validated (demo fails with the change, "
                  "passes without, 167 baseline tests pass); `tools/psweep.py seeds` applies it to a scratch copy of the sources and runs every check.", "",
                  "| seed | target property | checks that report a VIOLATION | rules |", "|---|---|---|---|"]
        for name, fired, errs, rows, _notes in results:
            meta = {}
            mp = os.path.join(base, name, "meta.json")
            if os.path.exists(mp):
                meta = json.load(open(mp))
            rules = sorted({l.split(": ", 1)[1].split(" ")[0] for l in rows if ": C" in l}) if fired is not None else []
            lines.append(f"| {name} | {meta.get('property', name[:3])} | {','.join(fired) if fired else ('PATCH DOES NOT APPLY' if fired is None else 'none')} | {','.join(rules)} |")
        lines += ["", f"{good} of {len(results)} seeded changes are reported by at least one check."]
    else:
        lines += ["# Behaviour-preserving refactorings and the checks that (must not) report them", "",
                  "Each row: a refactoring written by a fresh sub-agent with the same isolation as the seeds, validated with the 167 baseline tests; "
                  "`tools/psweep.py twins` applies it to a scratch copy and runs every check. `discharged` = alarms of spelling-level rules removed because the "
                  "changed functions were proven equivalent to the reference (see DESIGN.md §0).", "",
                  "| twin | verdict | checks that alarm | rules | discharged by equivalence |", "|---|---|---|---|---|"]
        for name, fired, errs, rows, notes in results:
            if fired is None:
                lines.append(f"| {name} | PATCH DOES NOT APPLY | | | |")
                continue
            rules = sorted({l.split(": ", 1)[1].split(" ")[0] for l in rows if ": C" in l})
            ok = not fired and not errs
            lines.append(f"| {name} | {'silent' if ok else 'ALARM'} | {','.join(fired)}{' +analysis-error' if errs else ''} | {','.join(rules)} | {'yes' if notes else ''} |")
        lines += ["", f"{good} of {len(results)} refactorings draw no alarm."]
    with open(os.path.join(base, "SUMMARY.md"), "w") as fh:
        fh.write("\n".join(lines) + "\n")


if __name__ == "__main__":
    sys.exit(main())

#!/venv/bin/python
"""Re-run every check against every seeded regression (apply to /repo, ./nv all, undo) and
rewrite seeded/SUMMARY.md.  usage: seedsweep.py [name-prefix]"""

import json
import os
import subprocess
import sys

VERIF = os.path.dirname(os.path.dirname(os.path.abspath(__file__)))


def sh(cmd, cwd=None):
    p = subprocess.run(cmd, shell=True, cwd=cwd, capture_output=True, text=True)
    return p.returncode, p.stdout + p.stderr


def main():
    prefix = sys.argv[1] if len(sys.argv) > 1 else ""
    rc, out = sh("git -C /repo status --porcelain")
    if out.strip():
        print("refusing: /repo has uncommitted changes:\n" + out)
        return 1
    rows = []
    sdir = os.path.join(VERIF, "seeded")
    for name in sorted(os.listdir(sdir)):
        d = os.path.join(sdir, name)
        if not os.path.isdir(d) or not name.startswith(prefix):
            continue
        patch = os.path.join(d, "patch.diff")
        metap = os.path.join(d, "meta.json")
        meta = json.load(open(metap)) if os.path.exists(metap) else {}
        rc, o = sh(f"git -C /repo apply {patch}")
        if rc != 0:
            rows.append((name, meta.get("property", "?"), "PATCH DOES NOT APPLY", "", ""))
            continue
        try:
            rc, o = sh("./nv all", cwd=VERIF)
        finally:
            sh("git -C /repo checkout -- .")
        fired = sorted({l.split()[1].split("=")[1] for l in o.splitlines() if l.startswith("VIOLATION property=")})
        errors = [l for l in o.splitlines() if l.startswith("ANALYSIS-ERROR")]
        rules = sorted({l.split(": ", 1)[1].split(" ")[0] for l in o.splitlines() if ": C" in l and " -- " in l and l.split(": ", 1)[1][:1] == "C"})
        meta["checks_fired"] = fired
        meta["rules_fired"] = rules
        meta["analysis_errors"] = [e[:200] for e in errors]
        json.dump(meta, open(metap, "w"), indent=1)
        first = next((l for l in o.splitlines() if ": C" in l and " -- " in l), "")
        rows.append((name, meta.get("property", "?"), ",".join(fired) or "-", ",".join(rules)[:60], "E" if errors else ""))
        print(f"{name:10s} target={meta.get('property', '?'):4s} fired={','.join(fired) or '-':12s} rules={','.join(rules)[:70]} {'ANALYSIS-ERROR' if errors else ''}")
    with open(os.path.join(sdir, "SUMMARY.md"), "w") as fh:
        fh.write("# Seeded regressions and the checks that catch them\n\n")
        fh.write("Each row: a change written by a fresh sub-agent that saw only the property text and a scratch worktree; validated "
                 "(demo fails with the change, passes without, 167 baseline tests still pass) before it was kept.\n\n")
        fh.write("| seed | target property | checks that report a VIOLATION | rules |\n|---|---|---|---|\n")
        for name, prop, fired, rules, err in rows:
            fh.write(f"| {name} | {prop} | {fired} | {rules} {err} |\n")
        caught = sum(1 for r in rows if r[2] not in ("-", "PATCH DOES NOT APPLY"))
        fh.write(f"\n{caught} of {len(rows)} seeded changes are reported by at least one check.\n")
    print(f"{sum(1 for r in rows if r[2] not in ('-', 'PATCH DOES NOT APPLY'))}/{len(rows)} caught")
    return 0


if __name__ == "__main__":
    sys.exit(main())

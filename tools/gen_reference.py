#!/venv/bin/python
"""Snapshot the confirmed tree as the reference for translation validation (nvstatic/equiv.py, nvstatic/refcheck.py).

Run after every commit to /repo that the rules were re-confirmed against (a ``fix:`` commit): copies the hand-written
modules of src/numbers_parser into nvstatic/reference/ and records digests of the other files the checks consult.
"""
import glob
import hashlib
import json
import os
import shutil
import subprocess

VERIF = os.path.dirname(os.path.dirname(os.path.abspath(__file__)))
REPO = "/repo"
dst = os.path.join(VERIF, "nvstatic", "reference")
shutil.rmtree(dst, ignore_errors=True)
os.makedirs(os.path.join(dst, "src", "numbers_parser"))
head = subprocess.run(["git", "-C", REPO, "rev-parse", "HEAD"], capture_output=True, text=True).stdout.strip()
dirty = subprocess.run(["git", "-C", REPO, "status", "--porcelain"], capture_output=True, text=True).stdout.strip()
if dirty:
    raise SystemExit("refusing to snapshot a dirty tree:\n" + dirty)
n = 0
for p in sorted(glob.glob(f"{REPO}/src/numbers_parser/*.py")):
    # stored with a .txt suffix so that nothing ever imports or byte-compiles the snapshot
    shutil.copy(p, os.path.join(dst, "src", "numbers_parser", os.path.basename(p) + ".txt"))
    n += 1
dig = {}
for rel in ["docs/Numbers.md", "docs/api/datetime.rst"] + sorted(os.path.relpath(p, REPO) for p in glob.glob(f"{REPO}/src/numbers_parser/generated/*.py")):
    with open(os.path.join(REPO, rel), "rb") as fh:
        dig[rel] = hashlib.sha256(fh.read()).hexdigest()
with open(os.path.join(dst, "digests.json"), "w") as fh:
    json.dump({"repo_head": head, "files": dig}, fh, indent=1)
print(f"{n} modules, {len(dig)} digests, head {head[:7]}")

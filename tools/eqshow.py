#!/venv/bin/python
"""Print the canonical effect sequences of one function in a twin and in the reference. usage: eqshow.py twins/C14-A cell.py _decode_date_format_field"""
import ast, os, shutil, subprocess, sys
VERIF = os.path.dirname(os.path.dirname(os.path.abspath(__file__)))
sys.path.insert(0, VERIF)
from nvstatic.core import Repo, U
from nvstatic import refcheck, equiv
arg, rel, q = sys.argv[1:4]
overlay = None
scratch = f"/tmp/scratch/eqs_{arg.replace('/', '_').replace(':', '_')}"
if arg.startswith("corpus:"):
    import importlib
    from nvstatic import selftest
    _, prop, vname = arg.split(":")
    mod = importlib.import_module(f"nvstatic.props.{prop.lower()}")
    v = [x for x in mod.VARIANTS if x.name == vname][0]
    overlay, why = selftest._apply("/repo", v)
    os.makedirs(scratch, exist_ok=True)
else:
    d = os.path.join(VERIF, arg)
    shutil.rmtree(scratch, ignore_errors=True); os.makedirs(scratch)
    subprocess.run(f"cp -r /repo/src {scratch}/src && cp -r /repo/docs {scratch}/docs && cd {scratch} && git apply -p1 {d}/patch.diff", shell=True, check=True)
def show(items, ind=0):
    for it in items:
        if it[0] == "if":
            print(" " * ind + "if " + U(it[1])[:150]); show(it[2], ind + 4); print(" " * ind + "else"); show(it[3], ind + 4)
        elif it[0] == "loop":
            print(" " * ind + f"loop {it[1]} init={it[2]}"); show(it[3], ind + 4)
        elif it[0] in ("try", "with", "def"):
            print(" " * ind + str(it[0]) + " " + str(it[1])[:100])
            for sub in it[1:]:
                if isinstance(sub, list): show(sub, ind + 4)
                if isinstance(sub, tuple):
                    for h in sub:
                        if isinstance(h, tuple) and len(h) == 2 and isinstance(h[1], list): print(" " * (ind+2) + "except " + h[0]); show(h[1], ind + 4)
        else:
            print(" " * ind + " | ".join(str(x)[:160] for x in it))
try:
    cur = Repo("/repo", overlay=overlay) if overlay is not None else Repo(scratch)
    ref = Repo("/repo", overlay=refcheck.reference_overlay())
    rel = "src/numbers_parser/" + rel
    cf = refcheck._functions(cur.tree(rel))[q]; rf = refcheck._functions(ref.tree(rel))[q]
    for name, f in (("CURRENT", cf), ("REFERENCE", rf)):
        if "--brief" in sys.argv:
            continue
        print("=====", name)
        try:
            show(equiv.Summary(f, dict(cur.consts)).items)
        except equiv.NotProven as e:
            print("not proven:", e)
    if "--brief" in sys.argv:
        pass
    equiv.LAST_DIFF.clear()
    print(equiv.equivalent(cf, rf, dict(cur.consts)))
    for d in equiv.LAST_DIFF[:3]:
        print("DIFF", d[0]); print("   cur:", d[1]); print("   ref:", d[2])
finally:
    shutil.rmtree(scratch, ignore_errors=True)

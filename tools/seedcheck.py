#!/venv/bin/python
"""Validate a seeded regression delivered by a sub-agent and run the checks against it.

usage: seedcheck.py <PROP> <A|B> [--no-tests] [--keep]
  1. in the scratch worktree /tmp/wt/<PROP>: apply seed_X.patch, run demo (must exit != 0), run the
     fast test loop (167 baseline tests must pass), revert, run demo (must exit 0);
  2. apply the patch to /repo, run every implemented check, undo (git checkout -- .);
  3. store patch.diff, demo.py, note.txt and meta.json under /verif/seeded/<PROP>-<X>/.
"""

import json
import os
import shutil
import subprocess
import sys
import xml.etree.ElementTree as ET

VERIF = os.path.dirname(os.path.dirname(os.path.abspath(__file__)))


def sh(cmd, cwd=None, env=None, timeout=1800):
    e = dict(os.environ)
    if env:
        e.update(env)
    p = subprocess.run(cmd, shell=True, cwd=cwd, env=e, capture_output=True, text=True, timeout=timeout)
    return p.returncode, p.stdout + p.stderr


def run_tests(wt, tag):
    xml = f"/tmp/scratch/seed-{tag}.xml"
    sh(f"/venv/bin/python -m pytest -q -p no:cacheprovider --timeout=900 -n 16 --no-cov --junitxml={xml}", cwd=wt, env={"PYTHONPATH": f"{wt}/src"})
    base = set(json.load(open("/root/.vp/BASELINE.json"))["stable_pass"])
    res = {}
    for tc in ET.parse(xml).iter("testcase"):
        name = tc.get("classname") + "::" + tc.get("name")
        bad = any(c.tag in ("failure", "error") for c in tc)
        res[name] = "fail" if bad else "pass"
    return sorted(n for n in base if res.get(n) != "pass")


def main():
    prop, x = sys.argv[1], sys.argv[2]
    notests = "--no-tests" in sys.argv
    rnd = next((a.split("=")[1] for a in sys.argv if a.startswith("--round=")), "")
    wt = f"/tmp/wt/{rnd + '_' if rnd else ''}{prop}"
    patch = f"{wt}/seed_{x}.patch"
    demo = f"demo_{x}.py"
    meta = {"property": prop, "variant": x, "round": rnd or "r1"}
    os.makedirs("/tmp/scratch", exist_ok=True)
    sh("git checkout -- src", cwd=wt)
    rc, out = sh(f"git apply {patch}", cwd=wt)
    if rc != 0:
        print("patch does not apply in worktree:", out)
        return 1
    rc1, out1 = sh(f"/venv/bin/python {demo}", cwd=wt, env={"PYTHONPATH": f"{wt}/src"})
    meta["demo_exit_with_change"] = rc1
    meta["demo_output_with_change"] = out1[-1500:]
    regress = None
    if not notests:
        regress = run_tests(wt, f"{prop}{rnd}{x}")
        meta["baseline_regressions_with_change"] = regress
    sh("git checkout -- src", cwd=wt)
    rc0, out0 = sh(f"/venv/bin/python {demo}", cwd=wt, env={"PYTHONPATH": f"{wt}/src"})
    meta["demo_exit_without_change"] = rc0
    valid = rc1 != 0 and rc0 == 0 and (notests or not regress)
    meta["valid"] = valid
    print(f"{prop}-{x}: demo with={rc1} without={rc0} regressions={regress} valid={valid}")
    # run the checks on a scratch copy of /repo's sources with the patch applied (never on /repo itself, so that several
    # validations can run side by side and the evidence files keep describing /repo)
    scratch = f"/tmp/scratch/sc_{rnd or 'r1'}_{prop}_{x}"
    shutil.rmtree(scratch, ignore_errors=True)
    os.makedirs(scratch)
    try:
        sh(f"cp -r /repo/src {scratch}/src && cp -r /repo/docs {scratch}/docs")
        rc, out = sh(f"git apply -p1 {patch}", cwd=scratch)
        if rc != 0:
            print("patch does not apply to /repo's sources:", out)
            return 1
        rc, out = sh(f"./nv all --repo {scratch}", cwd=VERIF)
        out = out.replace(scratch + "/", "")
    finally:
        shutil.rmtree(scratch, ignore_errors=True)
    fired = []
    errors = []
    cur = None
    for line in out.splitlines():
        if line.startswith("VIOLATION property="):
            fired.append(line.split()[1].split("=")[1])
        if line.startswith("ANALYSIS-ERROR"):
            errors.append(line[:300])
    details = [l for l in out.splitlines() if ": C" in l and " -- " in l][:12]
    meta["checks_fired"] = sorted(set(fired))
    meta["analysis_errors"] = errors
    meta["violation_lines"] = details
    print("   fired:", sorted(set(fired)), "errors:", len(errors))
    for d in details[:6]:
        print("     ", d[:260])
    for e in errors:
        print("     ", e)
    d = os.path.join(VERIF, "seeded", f"{prop}-{rnd + '-' if rnd else ''}{x}")
    os.makedirs(d, exist_ok=True)
    shutil.copy(patch, os.path.join(d, "patch.diff"))
    shutil.copy(f"{wt}/{demo}", os.path.join(d, "demo.py"))
    if os.path.exists(f"{wt}/note_{x}.txt"):
        shutil.copy(f"{wt}/note_{x}.txt", os.path.join(d, "note.txt"))
        meta["needs_to_manifest"] = open(f"{wt}/note_{x}.txt").read()
    meta["ran"] = [
        f"git apply seed_{x}.patch in scratch worktree; PYTHONPATH=<wt>/src /venv/bin/python demo_{x}.py (exit {rc1}); "
        f"pytest -n 16 --no-cov (baseline regressions: {regress}); git checkout; demo again (exit {rc0})",
        "patch.diff applied to a scratch copy of /repo's sources; ./nv all --repo <copy>; copy removed",
    ]
    with open(os.path.join(d, "meta.json"), "w") as fh:
        json.dump(meta, fh, indent=1)
    return 0


if __name__ == "__main__":
    sys.exit(main())

#!/venv/bin/python
"""Snapshot the vocabulary of the confirmed tree (module-level names, function names, local names per function).
The normaliser (nvstatic/normalize.py) inlines helpers, folds constants and propagates aliases whose names are
NOT in this snapshot, i.e. vocabulary introduced by later edits.  Run only when the confirmed tree changes."""
import ast, json, os, sys
SRC = "/repo/src/numbers_parser"
out = {}
for fn in sorted(os.listdir(SRC)):
    if not fn.endswith(".py"):
        continue
    tree = ast.parse(open(os.path.join(SRC, fn)).read())
    mod = {"module": [], "functions": {}}
    for n in tree.body:
        if isinstance(n, (ast.FunctionDef, ast.ClassDef)):
            mod["module"].append(n.name)
        elif isinstance(n, ast.Assign):
            for t in n.targets:
                for x in ast.walk(t):
                    if isinstance(x, ast.Name):
                        mod["module"].append(x.id)
        elif isinstance(n, ast.AnnAssign) and isinstance(n.target, ast.Name):
            mod["module"].append(n.target.id)
        elif isinstance(n, (ast.Import, ast.ImportFrom)):
            for a in n.names:
                mod["module"].append((a.asname or a.name).split(".")[0])
    def visit(node, prefix):
        for c in node.body:
            if isinstance(c, ast.ClassDef):
                visit(c, prefix + c.name + ".")
            elif isinstance(c, ast.FunctionDef):
                q = prefix + c.name
                names = set(a.arg for a in c.args.args + c.args.kwonlyargs)
                if c.args.vararg: names.add(c.args.vararg.arg)
                if c.args.kwarg: names.add(c.args.kwarg.arg)
                for x in ast.walk(c):
                    if isinstance(x, ast.Name) and isinstance(x.ctx, (ast.Store, ast.Del)):
                        names.add(x.id)
                    if isinstance(x, ast.FunctionDef) and x is not c:
                        names.add(x.name)
                mod["functions"].setdefault(q, [])
                mod["functions"][q] = sorted(set(mod["functions"][q]) | names)
                visit(c, q + ".")
    visit(tree, "")
    mod["module"] = sorted(set(mod["module"]))
    out[fn] = mod
json.dump(out, open("/verif/nvstatic/pinned_names.json", "w"), indent=0, sort_keys=True)
print(sum(len(m["functions"]) for m in out.values()), "functions")

#!/venv/bin/python
"""Validate a behaviour-preserving refactoring delivered by a sub-agent and run the checks against it.

usage: twincheck.py <PROP> <A|B|C> [--no-tests]
  1. in /tmp/wt/tw_<PROP>: apply twin_X.patch, run the fast test loop (167 baseline tests must pass), revert;
  2. apply the patch to /repo, run every check, undo;
  3. store patch.diff, note.txt, meta.json under /verif/twins/<PROP>-<X>/.
A VIOLATION or ANALYSIS-ERROR on a twin is a false alarm of the checker (unless the refactoring is not
behaviour-preserving after all, which is then recorded in meta.json by hand).
"""
import json
import os
import shutil
import subprocess
import sys
import xml.etree.ElementTree as ET

VERIF = os.path.dirname(os.path.dirname(os.path.abspath(__file__)))


def sh(cmd, cwd=None, env=None, timeout=1800):
    e = dict(os.environ)
    if env:
        e.update(env)
    p = subprocess.run(cmd, shell=True, cwd=cwd, env=e, capture_output=True, text=True, timeout=timeout)
    return p.returncode, p.stdout + p.stderr


def run_tests(wt, tag):
    xml = f"/tmp/scratch/twin-{tag}.xml"
    sh(f"/venv/bin/python -m pytest -q -p no:cacheprovider --timeout=900 -n 16 --no-cov --junitxml={xml}", cwd=wt, env={"PYTHONPATH": f"{wt}/src"})
    base = set(json.load(open("/root/.vp/BASELINE.json"))["stable_pass"])
    res = {}
    for tc in ET.parse(xml).iter("testcase"):
        name = tc.get("classname") + "::" + tc.get("name")
        res[name] = "fail" if any(c.tag in ("failure", "error") for c in tc) else "pass"
    return sorted(n for n in base if res.get(n) != "pass")


def main():
    prop, x = sys.argv[1], sys.argv[2]
    notests = "--no-tests" in sys.argv
    rnd = next((a.split("=")[1] for a in sys.argv if a.startswith("--round=")), "")
    wt = f"/tmp/wt/{rnd or 'tw'}_{prop}"
    patch = f"{wt}/twin_{x}.patch"
    meta = {"property": prop, "variant": x}
    os.makedirs("/tmp/scratch", exist_ok=True)
    sh("git checkout -- src", cwd=wt)
    rc, out = sh(f"git apply {patch}", cwd=wt)
    if rc != 0:
        print("patch does not apply in worktree:", out)
        return 1
    regress = None
    if not notests:
        regress = run_tests(wt, f"{prop}{x}")
        meta["baseline_regressions_with_change"] = regress
    sh("git checkout -- src", cwd=wt)
    # the checks run on a scratch copy of /repo's sources with the patch applied (never on /repo itself, so that
    # several validations can run side by side and the evidence files keep describing /repo)
    import shutil
    scratch = f"/tmp/scratch/tc_{rnd or 'tw'}_{prop}_{x}"
    shutil.rmtree(scratch, ignore_errors=True)
    os.makedirs(scratch)
    try:
        sh(f"cp -r /repo/src {scratch}/src && cp -r /repo/docs {scratch}/docs")
        rc, out = sh(f"git apply -p1 {patch}", cwd=scratch)
        if rc != 0:
            print("patch does not apply to /repo's sources:", out)
            return 1
        rc, out = sh(f"./nv all --repo {scratch}", cwd=VERIF)
        out = out.replace(scratch + "/", "")
    finally:
        shutil.rmtree(scratch, ignore_errors=True)
    fired = sorted({l.split()[1].split("=")[1] for l in out.splitlines() if l.startswith("VIOLATION property=")})
    errors = [l[:400] for l in out.splitlines() if l.startswith("ANALYSIS-ERROR")]
    details = [l for l in out.splitlines() if ": C" in l and " -- " in l][:12]
    meta["alarms"] = fired
    meta["analysis_errors"] = errors
    meta["alarm_lines"] = details
    print(f"{prop}-{x}: regressions={regress} alarms={fired} analysis_errors={len(errors)}")
    for d in details[:8]:
        print("     ", d[:300])
    for e in errors:
        print("     ", e[:300])
    d = os.path.join(VERIF, "twins", f"{prop}-{rnd + '-' if rnd else ''}{x}")
    meta["round"] = rnd or "tw1"
    os.makedirs(d, exist_ok=True)
    shutil.copy(patch, os.path.join(d, "patch.diff"))
    if os.path.exists(f"{wt}/twin_{x}.txt"):
        shutil.copy(f"{wt}/twin_{x}.txt", os.path.join(d, "note.txt"))
    json.dump(meta, open(os.path.join(d, "meta.json"), "w"), indent=1)
    return 0


if __name__ == "__main__":
    sys.exit(main())

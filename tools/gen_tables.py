#!/venv/bin/python
"""Record the data tables of the confirmed tree that a rule compares later trees with (run after every fix commit in /repo,
together with gen_reference.py): nvstatic/reference/tables.json.

FUNCTION_MAP (generated/functionmap.py): stored function id -> the name Numbers shows for it.  There is no second source for
these pairs inside the repository; the confirmed pairs are the reference, new ids may be added.  The same holds for
TSPRegistryMapping (generated/mapping.py): message type id -> schema name."""
import ast
import json
import os
import sys

VERIF = os.path.dirname(os.path.dirname(os.path.abspath(__file__)))
repo = sys.argv[1] if len(sys.argv) > 1 else "/repo"
src = open(os.path.join(repo, "src/numbers_parser/generated/functionmap.py"), encoding="utf-8").read()
tree = ast.parse(src)
out = {}
for st in tree.body:
    if isinstance(st, ast.Assign) and len(st.targets) == 1 and isinstance(st.targets[0], ast.Name) and st.targets[0].id == "FUNCTION_MAP":
        out["FUNCTION_MAP"] = {str(k): v for k, v in ast.literal_eval(st.value).items()}
# TSPRegistryMapping (generated/mapping.py): archive message type id -> protobuf message name the payload is parsed with
src2 = open(os.path.join(repo, "src/numbers_parser/generated/mapping.py"), encoding="utf-8").read()
for st in ast.parse(src2).body:
    if isinstance(st, ast.Assign) and len(st.targets) == 1 and isinstance(st.targets[0], ast.Name) and st.targets[0].id == "TSPRegistryMapping":
        out["TSPRegistryMapping"] = {str(k): v for k, v in ast.literal_eval(st.value).items()}
# OPERATOR_PRECEDENCE (constants.py): its keys are also the characters that make the reader put a row/column name in quotes
src3 = open(os.path.join(repo, "src/numbers_parser/constants.py"), encoding="utf-8").read()
for st in ast.parse(src3).body:
    if isinstance(st, ast.Assign) and len(st.targets) == 1 and isinstance(st.targets[0], ast.Name) and st.targets[0].id == "OPERATOR_PRECEDENCE":
        out["OPERATOR_PRECEDENCE_KEYS"] = sorted(ast.literal_eval(st.value).keys())
path = os.path.join(VERIF, "nvstatic", "reference", "tables.json")
with open(path, "w", encoding="utf-8") as fh:
    json.dump(out, fh, indent=0, sort_keys=True)
print(path, {k: len(v) for k, v in out.items()})

#!/venv/bin/python
"""Soundness / usefulness of the equivalence prover on the sensitivity corpus: no mutant may be proven equivalent to the
reference; report how many twins are.  usage: eqcorpus.py [PROP...]"""
import importlib, os, sys
from concurrent.futures import ProcessPoolExecutor
VERIF = os.path.dirname(os.path.dirname(os.path.abspath(__file__)))
sys.path.insert(0, VERIF)
from nvstatic.core import Repo
from nvstatic import refcheck, selftest

def one(job):
    prop, i = job
    mod = importlib.import_module(f"nvstatic.props.{prop.lower()}")
    v = mod.VARIANTS[i]
    overlay, why = selftest._apply("/repo", v)
    if overlay is None:
        return prop, v.kind, v.name, "skipped", why
    try:
        # as in a real run, the files the variant touches are among the consulted ones (a data table of a generated module is
        # not part of the reference: a change there is never "proven equivalent")
        res = refcheck.compare(Repo("/repo", overlay=overlay), sorted(set(refcheck.reference_overlay()) | set(overlay)))
    except Exception as e:
        return prop, v.kind, v.name, "error", f"{type(e).__name__}: {e}"
    return prop, v.kind, v.name, "equivalent" if res["equivalent"] else "different", "; ".join(res["blocking"][:2])

def main():
    props = [a.upper() for a in sys.argv[1:]] or [f"C{n:02d}" for n in range(1, 21) if n != 10]
    jobs = []
    for p in props:
        mod = importlib.import_module(f"nvstatic.props.{p.lower()}")
        jobs += [(p, i) for i in range(len(getattr(mod, "VARIANTS", [])))]
    with ProcessPoolExecutor(max_workers=16) as ex:
        res = list(ex.map(one, jobs))
    bad = [r for r in res if r[1] == "mutant" and r[3] == "equivalent"]
    tw = [r for r in res if r[1] == "twin"]
    print(f"mutants: {sum(1 for r in res if r[1]=='mutant')} , wrongly proven equivalent: {len(bad)}")
    for r in bad: print("   UNSOUND", r)
    print(f"twins: {len(tw)}, proven equivalent: {sum(1 for r in tw if r[3]=='equivalent')}")
    for r in tw:
        if r[3] != "equivalent": print("   twin not proven:", r[0], r[2], r[4][:160])
    for r in res:
        if r[3] in ("error",): print("   ERROR", r)
if __name__ == "__main__":
    main()

#!/venv/bin/python
"""eqroot.py <root>: which changed functions of the tree at <root> are proven equivalent to the reference, and why not."""
import sys
sys.path.insert(0, __import__("os").path.dirname(__import__("os").path.dirname(__import__("os").path.abspath(__file__))))
from nvstatic.core import Repo
from nvstatic import refcheck
cur = Repo(sys.argv[1])
ov, proven, notp = refcheck.hybrid_overlay(cur, None)
print("proven:", len(proven))
for p in proven:
    print("   ", p)
print("not proven:", len(notp))
for p in notp:
    print("   ", p[:400])

#!/venv/bin/python
"""First difference for every function of every stored twin that is not proven equivalent. usage: eqdiffs.py [prefix]"""
import ast, os, shutil, subprocess, sys
from concurrent.futures import ProcessPoolExecutor
VERIF = os.path.dirname(os.path.dirname(os.path.abspath(__file__)))
sys.path.insert(0, VERIF)
from nvstatic.core import Repo, U
from nvstatic import refcheck, equiv

def one(name):
    d = os.path.join(VERIF, "twins", name)
    scratch = f"/tmp/scratch/eqd_{name}"
    shutil.rmtree(scratch, ignore_errors=True); os.makedirs(scratch)
    subprocess.run(f"cp -r /repo/src {scratch}/src && cp -r /repo/docs {scratch}/docs && cd {scratch} && git apply -p1 {d}/patch.diff", shell=True, check=True)
    out = []
    try:
        cur = Repo(scratch); ref = Repo(scratch, overlay=refcheck.reference_overlay())
        res = refcheck.compare(cur, None)
        n_proven = len(res["functions_proven"])
        for b in res["blocking"]:
            if ": function " not in b:
                out.append((name, b, "", "")); continue
            rel = b.split(":")[0]; q = b.split(": function ")[1].split(":")[0]
            if q.endswith(" removed") or q not in refcheck._functions(cur.tree(rel)) or q not in refcheck._functions(ref.tree(rel)):
                out.append((name, b, "", "")); continue
            cf = refcheck._functions(cur.tree(rel))[q]; rf = refcheck._functions(ref.tree(rel))[q]
            equiv.LAST_DIFF.clear()
            ok, why = equiv.equivalent(cf, rf, dict(cur.consts))
            dd = equiv.LAST_DIFF[0] if equiv.LAST_DIFF else ("", why, "")
            out.append((name, f"{rel.split('/')[-1]}:{q}", str(dd[1])[:230], str(dd[2])[:230]))
        return name, n_proven, out
    finally:
        shutil.rmtree(scratch, ignore_errors=True)

prefix = sys.argv[1] if len(sys.argv) > 1 else ""
names = sorted(n for n in os.listdir(os.path.join(VERIF, "twins")) if n.startswith(prefix) and os.path.isdir(os.path.join(VERIF, "twins", n)))
with ProcessPoolExecutor(max_workers=12) as ex:
    res = list(ex.map(one, names))
tp = sum(r[1] for r in res); tb = sum(len(r[2]) for r in res)
print(f"functions proven: {tp}, not proven: {tb}, twins fully proven: {sum(1 for r in res if not r[2])}/{len(res)}")
for name, n, out in res:
    for _, fn, a, b in out:
        print(f"{name} {fn}\n     cur: {a}\n     ref: {b}")

#!/venv/bin/python
"""Regenerate /verif/MANIFEST.json from the per-property metadata below and the set of
implemented check modules (a property without a module is listed under not_applicable)."""

import json
import os
import sys

VERIF = os.path.dirname(os.path.dirname(os.path.abspath(__file__)))
sys.path.insert(0, VERIF)

META = {
    "C01": dict(
        technique="AST rules: isinstance-chain subclass order, encoder/decoder kind-codec agreement, numeric-kind (exactness) abstract interpretation of the decimal128 codec",
        text="Decides three structural necessary conditions of exact value round trip for every value at once: type dispatch tests subclasses first, each cell kind is written and read with the same flag, struct format and inverse value expression, and the decimal128 codec uses only exact arithmetic up to one final rounding. Does not decide the string-table/tile/zip plumbing end to end.",
        note="python ast; struct.calcsize; builtin type lattice (bool<int, datetime<date); protobuf descriptor for cell type numbers; exactness table of arithmetic operators",
        ref="4/C01",
    ),
    "C02": dict(
        technique="AST set comparison (decoded attributes vs re-emitted attributes), CFG dominance (string list reset precedes encoding; every non-pivot table re-encoded), effect analysis of read accessors",
        text="Decides that everything the record decoder reads is re-emitted by the encoder, that save re-encodes every non-pivot table after resetting its string list, and that public read accessors have no protobuf-write or allocation effect in their call-graph closure. Whole-document equality is not decided.",
        note="call resolution is name/receiver-table based; unresolved calls are listed in the evidence and assumed effect-free",
        ref="4/C02",
    ),
    "C03": dict(
        technique="guard-fact dataflow over the CFG (slice removal count vs counter delta), renumber-loop bound coverage, memo-key lint over @cache sites, who-may-write (GRID ownership) check",
        text="Decides that each structural editor keeps grid, counter and model in step for every argument, that renumber loops cover every moved cell, that memoised methods depend only on their key arguments and caches are per instance, and that only the editors write the grid. Equality with a reference grid over histories is not decided.",
        note="linear integer facts with syntactic entailment (at most three facts combined); python ast",
        ref="4/C03",
    ),
    "C04": dict(
        technique="layout abstract interpretation of decoder and encoder (symbolic offset over flag bits) compared with the frozen v5 layout table and the docs byte-6 table",
        text="Full structural decision: for all 2^21 flag subsets and all kinds, every field is read from the offset the documented layout gives it, uninterpreted fields are skipped in place, the encoder emits fields in ascending bit order with matching widths and flags, and both sides attach the same attribute to each bit.",
        note="python ast, struct.calcsize, frozen SheetJS v5 layout table, docs/Numbers.md; values themselves are C01",
        ref="4/C04",
    ),
    "C05": dict(
        technique="AST constant/shape agreement between sibling framing routines, slice-pair consumption check, CFG order (lengths refreshed before header serialised)",
        text="Decides the framing agreement that every size (including 64 KiB edges) depends on: marker byte, 3-byte little-endian length, header size and advance agree between writer, reader and sniffer; the chunker advances by exactly what it emits, at most 65536 bytes; message lengths are refreshed before the header is serialised; decoding consumes the join of all chunks. Byte identity of protobuf re-serialisation is trusted.",
        note="python ast; protobuf runtime behaviour trusted",
        ref="4/C05",
    ),
    "C06": dict(
        technique="control-dependence check of index stores in lookup-list loops, def-use (row position derived from the record's declared index), writer/reader field symmetry from descriptors",
        text="Decides that every lookup-list entry is indexed regardless of position, that a stored row is located by the tile row index its record declares, that wide/narrow offset scaling agrees between writer and reader, and that chunk/member traversal normalises to the same keys. Whole-document equality under re-layout is not decided.",
        note="python ast; protobuf descriptors decoded from generated/*_pb2.py",
        ref="4/C06",
    ),
    "C07": dict(
        technique="who-may-write and must-follow checks: identifier source, every new archive file followed by its metadata entry, record geometry from the layout table, linear tile arithmetic",
        text="Decides that new identifiers come only from the monotonically increasing counter that is also recorded as the high-water mark, that every object created in a new archive file is followed on all paths by its package-metadata entry, that records are 4-byte aligned and offsets/tiles partition the rows. Resolution of every Reference is not decided.",
        note="python ast, CFG post-dominance",
        ref="4/C07",
    ),
    "C08": dict(
        technique="operand-stack abstract interpretation of every Formula handler, dispatch-table closure against the protobuf enum, glyph round trip through the writer's operator map",
        text="Strong structural decision of the renderer: each binary operator handler pops two and pushes 'second glyph top' with the glyph of the node type that dispatches to it, unary and n-ary handlers restore argument order with exactly one reversal, string literals double quotes. Number formatting and references are other rules.",
        note="python ast; TSCEArchives descriptor; generated/functionmap.py",
        ref="4/C08",
    ),
    "C09": dict(
        technique="axis/end/kind role tags on identifiers and protobuf field names; every keyword/positional binding must agree on the tags both sides carry",
        text="Decides that no reference coordinate, absolute flag or open-end sentinel is bound across axes or across begin/end, that relative coordinates add the host of the same axis, and that header writes invalidate the name cache. Uniqueness of the printed scope prefix is not decided.",
        note="lexicon of role-bearing identifiers (frozen, one line each); python ast",
        ref="4/C09",
    ),
    "C11": dict(
        technique="guard-fact dataflow: two-sided bounds entailed before every grid subscript; falsy-default and inclusive-bound lints; raise-before-mutate CFG check",
        text="Decides that every position-taking Table method parses its position with one of the two parsers and that both bounds of row and column are established (by raising guards or grow loops) before the grid is subscripted, that None-defaults do not swallow 0, and that inclusive ends are compared with >=. The A1<->(row,col) arithmetic itself is C10 (not applicable).",
        note="linear facts, syntactic entailment; summaries of add_row/add_column growth verified from source",
        ref="4/C11",
    ),
    "C12": dict(
        technique="loop-bound/rectangle coverage check around add_reference, role tags for (rows, cols) and rect tuples, shift/mask packing agreement writer vs reader",
        text="Decides that merging covers exactly the rectangle minus the anchor both in the grid and in the merge map, that size/rect tuple conventions and the packed origin/size encodings agree between writer and reader. Maintenance of the merge map across row/column edits is a recorded known finding.",
        note="python ast",
        ref="4/C12",
    ),
    "C13": dict(
        technique="table agreement (allowed parameters vs Formatting fields vs FormatStructArchive fields vs renderer reads) and leading-character predicate abstraction of sign decoration",
        text="Partially claimed: decides format plumbing (every allowed parameter exists, is stored and is read by the renderer the type dispatches to) and that sign/accounting decoration never strips a character that is not the sign. Rounding, carries and separators are not decided.",
        note="python ast; TSKArchives descriptor",
        ref="4/C13",
    ),
    "C14": dict(
        technique="table agreement with docs/api/datetime.rst and interval/decimal-string abstract interpretation of the lambda-valued directives over the whole field domain",
        text="Decides the directive table: documented directives = implemented directives, strftime codes match, and each clock/ordinal lambda is proved to yield the documented range and padding for every value of its field (exact transfer functions incl. str.replace). Scanner and durations are not decided.",
        note="frozen directive->strftime table; abstract transfer functions are exact over the finite field domains",
        ref="4/C14",
    ),
    "C15": dict(
        technique="CFG dominance (stamp before apply, validate before both), attribute-set agreement between Style, reader and writers, geometric table for shared edges, sidecar axis agreement",
        text="Decides that a stroke's order is assigned before cells compare orders, that all 16 style attributes are read back and written by the matching writer, that each edge updates the right neighbour and opposite side, and that add_stroke is the inverse of extract_strokes. The gradient-fill save crash is a recorded known finding.",
        note="python ast, CFG",
        ref="4/C15",
    ),
    "C16": dict(
        technique="provenance (taint) of persisted sizes, get/set field-chain agreement of dual accessors, who-may-write check on label/geometry fields in the save closure",
        text="Decides that persisted row/column sizes are never a literal default, that each dual accessor reads and writes the same field chain and that properties forward with the same id. The border-allowance write-back drift is a recorded known finding.",
        note="python ast",
        ref="4/C16",
    ),
    "C17": dict(
        technique="inter-procedural exception-escape analysis of the container loader (explicit raises, external-callee raise table, unguarded subscripts/unpack) against the allowed error types",
        text="Decides that from ObjectStore.__init__ down through unzip, un-framing and archive decoding only FileError, FileFormatError and UnsupportedError can escape, and that the CLI catches exactly those. Failures after the container is loaded are not decided.",
        note="sound relative to the frozen external-callee raise table (one recorded witness each); unknown external callees are listed and assumed silent",
        ref="4/C17",
    ),
    "C18": dict(
        technique="exception-escape analysis of the tokenizer, dispatch-table agreement, consumption accounting (text appended = formula[offset:offset+n]), reader-glyph inclusion",
        text="Decides totality (only TokenizerError escapes), that every dispatched character satisfies its consumer's precondition, that each consumer appends exactly the characters by which the offset advances, and that every glyph the reader emits is accepted. Acceptance of all reference spellings is not decided.",
        note="python ast, re._parser for the string regexes",
        ref="4/C18",
    ),
    "C19": dict(
        technique="guard-fact dataflow on ItemsList.__getitem__, case-folding lint on membership, dominance of duplicate check over every append, raise-before-mutate",
        text="Decides index bounds after negative normalisation, case-insensitive membership vs exact lookup, that every append to a collection is dominated by the duplicate check or the fresh-name loop on that collection, and that refusal precedes any mutation. Order after reopen is not decided.",
        note="python ast, CFG, linear facts",
        ref="4/C19",
    ),
    "C20": dict(
        technique="taint from float(CSV text) to stored values through a finiteness sanitiser, exception-escape shape of main, content-keyed row storage lint",
        text="Partially claimed: decides that non-finite floats cannot reach the document, that conversion errors are reported through the RuntimeError handler with a non-zero exit. Content-keyed rows (duplicate header cells) are a recorded known finding; the text/number round trip through cat-numbers is not decided.",
        note="python ast",
        ref="4/C20",
    ),
}

NOT_APPLICABLE = {
    "C10": "arithmetic property (bijective, gap-free, order-preserving base-26 numbering; encode/decode inverse): needs induction over the digit loop (a proof) or enumeration (a runtime test); no shape of the code implies it. The shape facts that are visible are printed as informational lines by the C11 check.",
}


def main():
    implemented = sorted(
        f[:-3].upper() for f in os.listdir(os.path.join(VERIF, "nvstatic", "props")) if f.startswith("c") and f.endswith(".py")
    )
    checks = []
    na = []
    for pid in [f"C{n:02d}" for n in range(1, 21)]:
        if pid in NOT_APPLICABLE:
            na.append({"property_id": pid, "reason": NOT_APPLICABLE[pid]})
            continue
        if pid not in implemented:
            na.append({"property_id": pid, "reason": "static check designed (DESIGN.md section 4) but not built yet; not claimed until it runs"})
            continue
        m = META[pid]
        checks.append(
            {
                "property_id": pid,
                "quick_cmd": f"./nv check {pid} --tier quick",
                "thorough_cmd": f"./nv check {pid} --tier thorough",
                "evidence_file": f"/verif/evidence/{pid}.json",
                "replay_cmd_template": "./nv replay {path}",
                "engine": "nvstatic",
                "level_claimed": {"category": "other", "text": m["text"], "design_ref": f"DESIGN.md section {m['ref']}"},
                "level_note": m["note"],
                "technique": "static analysis: " + m["technique"],
            }
        )
    man = {
        "version": 1,
        "setup_cmd": "/venv/bin/python -m compileall -q /verif/nvstatic >/dev/null 2>&1 || true",
        "hooks": {
            "guard": "NUMBERS_PARSER_VERIF",
            "enable": "no hooks: the checks are static and read /repo's working tree directly; nothing in numbers_parser is instrumented",
            "baseline_off_cmd": "cd /repo && /venv/bin/python -m pytest -ra -q -p no:cacheprovider --timeout=900 --continue-on-collection-errors",
            "source_commits": [],
            "add_only": True,
        },
        "engines": [
            {
                "name": "nvstatic",
                "path": "/verif/nvstatic",
                "serves_properties": [c["property_id"] for c in checks],
                "kind_free_text": "repository-specific static analysis on python ast: program index, statement CFG with dominators, guard-fact dataflow, exception-escape and effect analyses, small abstract interpreters (layout, operand stack, numeric kind, interval/decimal-string), table agreement against protobuf descriptors and docs",
            }
        ],
        "checks": checks,
        "notes": "All checks are static (no import or execution of numbers_parser). Exit 0 = all obligations discharged (known findings printed), 1 = unlisted violation, 2 = ANALYSIS-ERROR (anchor vanished / shape not recognised / instance count below floor). thorough = quick rules + in-memory sensitivity corpus (mutants must fire, twins must stay silent).",
        "not_applicable": na,
    }
    with open(os.path.join(VERIF, "MANIFEST.json"), "w", encoding="utf-8") as fh:
        json.dump(man, fh, indent=1)
        fh.write("\n")
    try:
        import jsonschema

        jsonschema.validate(man, json.load(open("/root/.vp/MANIFEST.schema.json")))
        print("MANIFEST.json valid;", len(checks), "checks,", len(na), "not applicable")
    except ImportError:
        print("MANIFEST.json written (jsonschema not available to validate)")


if __name__ == "__main__":
    main()
